"""Writes /verif/MANIFEST.json from the table below (kept in step with DESIGN.md §14)."""
import json
from pathlib import Path

VERIF = Path(__file__).resolve().parent.parent
ALL = [f"C{i:02d}" for i in range(1, 21)]

TB = ("Trusted: Coq 8.16.1 kernel and vm_compute; the T-core/T-algo translators and PyLib.v library table; the exact embedding "
      "of doubles (pv/lit.py); the harness. No axioms declared; Print Assumptions output is recorded in the evidence.")

CLAIMED = {
    "C16": dict(
        text=("Machine-checked proof (Coq) of every C16 clause for the definitions REGENERATED from helpers.py / abstract.py on each run "
              "(T-core), for all populations of any size with NaN-free costs, all 0<=n<=size, both directions: stable sorted permutation; "
              "best/worst return n distinct members, ordered, with no omitted agent strictly better/worse; index variants designate the same "
              "costs for ANY valid argsort; sort-and-trim keeps the n cheapest ascending; greedy keeps the incumbent unless strictly cheaper, "
              "element-wise on cost-sorted populations (any pool completion order); no helper mutates a caller list. Tie: regeneration + bridge "
              "lemmas, plus correspondence by vm_compute against the real functions (exhaustive small populations, random larger)."),
        note=TB + " Costs containing NaN are excluded (hypothesis costs_ok); negative slice bounds (n > size) are outside the translated subset.",
        technique="Coq proof over regenerated Gallina (T-core) + bridge lemmas + vm_compute correspondence",
        design="§7 C16"),
    "C13": dict(
        text=("Machine-checked proof of the domain laws. For the scalar kinds the theorems are about the methods REGENERATED from models.py "
              "(ContinuousVariable/DiscreteVariable/PermutationVariable correct, decode, get_bounds, validators): correct maps every non-NaN "
              "input (incl. +-inf) into the domain, fixes members, is idempotent; decode of a corrected value is the declared choice; for permutations the laws hold for EVERY valid numpy argsort (ties broken any way) "
              "and decode - end to end over the REGENERATED LabelEncoder (fit, transform, inverse_transform) and the variable's label table - is a rearrangement of the "
              "declared items for EVERY item list, repeated items included (the theorem that needed NoDup exposed the defect repaired in a2d4278). "
              "Multi-variables, random sampling and multi-variable validators: same laws proved on the hand model (Vars.v), tied to the code by "
              "vm_compute correspondence on generated definitions and values (boundary, +-1ulp, huge, inf, numpy scalars, ties); the laws are also swept on the real classes at LARGE sizes (8193 .. 3e6 choices around both ends of the index range, permutations of up to 131075 items: testing)."),
        note=TB + " Inputs to correct are non-NaN; bounds finite; choice lists non-empty; labels modulo Python's == with the sort key a total order (hypotheses of the two order theorems only). numpy's uniform/choice/permutation "
                  "ranges are the hypothesis draw_ok of the sampling theorem (sampled differentially).",
        technique="Coq proof over regenerated Gallina (T-core) + hand model; bridge lemmas; vm_compute correspondence",
        design="§7 C13"),
    "C14": dict(
        text=("Machine-checked proof on the TaskModel part of Vars.v for every variable list: dimension = sum of sizes = number of flattened "
              "variables = number of bound pairs; bounds are the owning variables' own bounds and ordered; corrected solutions have one "
              "coordinate per dimension, coordinate-wise by the owning variable's rule, and land in the search space; transform_solution has one "
              "entry per variable keyed by name holding the decoded slice. The model is hand-written and tied to models.Task by vm_compute "
              "correspondence on random tasks (all kinds, sizes 1-4 incl. size-1 multi-variables, single permutations); per-variable rules are "
              "regenerated and bridged (VarsBridge)."),
        note=TB + " Distinct variable names; permutation variables alone in a task; no NaN inputs.",
        technique="Coq proof on hand model + vm_compute correspondence against models.Task; per-variable rules regenerated (T-core)",
        design="§7 C14"),
    "C04": dict(
        text=("Machine-checked proof that a run of the optimize() statement schema REGENERATED from abstract.py (pv/tschema.py) with the "
              "REGENERATED __error_check__/__should_stop__ (T-core, bridged) stops at the first cycle K at which the declarative criterion "
              "holds (budget, rate <= fitness_error, last `patience` changes all small decreases), K <= max_cycles (this is the termination "
              "proof: fuel = max_cycles never runs out), with K+1 generations, K rates and rate k = |1 - mean fitness of generation k| — "
              "for every optimizer (arbitrary hidden state, hooks and step function), every instance history, every float carrier, every "
              "rate history and configuration. Tie: regeneration + bridge lemmas; scripted histories through the real optimize() compared "
              "bit-for-bit (PrimFloat) with the model in Coq; observational pass over real optimizers."),
        note=TB + " np.average is an oracle value per generation; every generation reached is non-empty (else ValueError: C06/C10).",
        technique="Coq proof (interpreter of the regenerated schema, induction on fuel) + bridge lemmas + PrimFloat vm_compute correspondence",
        design="§7 C04"),
    "C03": dict(
        text=("Machine-checked proof, for a run of the regenerated optimize() schema and every optimizer/history/configuration: best_solution "
              "is the sign-restored copy of a member of the last recorded generation and no member of it is strictly better in the task's "
              "direction — for every final population (any size >= 1, order, ties; hence any pool completion order), both directions "
              "(regenerated sign restoration of Population/OptimizationResult, xneg reverses the order); a concrete run (ties, changing order, max) is proved to meet every hypothesis. Tie: schema regeneration + bridges; "
              "scripted histories with ties/plateaus through the real optimize(); all 84 real optimizers in both directions."),
        note=TB + " Costs of the final generation are not NaN.",
        technique="Coq proof over the regenerated schema + sort/selection theorems; scripted vm_compute correspondence; search over real optimizers",
        design="§7 C03"),
    "C01": dict(
        text=("PARTIAL proof. Proved (Coq): for every exported optimizer whose skeleton - REGENERATED from its source by T-algo on every run - conforms "
              "(83 of 84; Imperialist Competitive is a named known finding), every objective, weight vector, valid task and direction, and every "
              "sequence of constructions/copies the numeric kernel may perform, every agent object ever built (hence every agent of every generation "
              "and best_solution) has its position in the search space: heap invariant over the provenance machine, using the REGENERATED "
              "_init_agent/initial_solution/solve/correct_solution (T-core, bridged) and the C13/C14 correction theorems; tightness lemma: a raw "
              "construction site admits a violation. NOT proved: H_raw (candidates handed to _init_agent have the right length and no NaN) - a property "
              "of 84 numpy kernels - monitored by running all real optimizers on generated tasks."),
        note=TB + " T-algo's syntactic provenance analysis (agent construction sites, core-field stores, position-list aliasing, reflection) is trusted and "
                  "cross-checked dynamically; H_raw is a hypothesis.",
        technique="Coq proof (heap invariant of a provenance machine over regenerated skeletons + regenerated init path); search over real optimizers for H_raw",
        design="§7 C01/C05/C02"),
    "C02": dict(
        text=("Proof (Coq): every agent built by a conforming optimizer reports (after the sign restoration of Population/OptimizationResult, regenerated) "
              "exactly the user's objective at its stored position - the weight-vector dot product for multi-objective tasks, both directions (xneg "
              "involutive; dot(-l,w) = -dot(l,w) as the one oracle law) - and its fitness is the regenerated calculate_fitness of that cost, which is "
              "phi(reported cost) on any float carrier. Same provenance machine and regenerated init path as C01. Tie: bridges + vm_compute "
              "correspondence of init_agent (position, cost, fitness bits, objective argument) + all real optimizers re-evaluated."),
        note=TB + " The objective is a deterministic function; np.dot is an oracle with the negation law; H_raw as in C01.",
        technique="Coq proof over regenerated skeletons and init path; PrimFloat/xnum vm_compute correspondence; search",
        design="§7 C02"),
    "C05": dict(
        text=("PARTIAL proof. Proved (Coq): for ALL 84 exported optimizers (each reaches the objective only through _init_agent: regenerated fact, no "
              "exception) every argument objective_function is ever called with - discarded candidates included - is a member of the search space, "
              "given H_raw; the regenerated solve/_fcn pass the CORRECTED argument. NOT proved: H_raw; its violations (NaN candidates) are exactly C05 "
              "violations (lemma nan_candidate_not_in_space) and are found by the recording-objective search, the edge suite (incl. discrete variables with 16385+ choices) and the degenerate-population campaign: ten known findings (two of them at the documented configuration, found by other-seed passes and a 11 760-run census)."),
        note=TB + " Worker processes record to per-process files; H_raw is a hypothesis monitored by search.",
        technique="Coq proof (calls invariant of the provenance machine) + recording-objective search over all optimizers and modes",
        design="§7 C05"),
    "C10": dict(
        text=("Proof (Coq) for the size-regular optimizers (69, pinned; regenerated by T-algo): the regenerated _init_population yields exactly "
              "population_size agents in every mode (pool = any permutation), every population write with a known size effect preserves a "
              "population of P agents, hence every generation of every run has exactly P agents. The 12 irregular optimizers have EXECUTABLE HAND size models "
              "(SizeModels.v: slices, groups with/without residual, trims) with a theorem each - under a decidable side condition implied by the validators or equal to "
              "the documented-size condition (group count divides P, even P for the genetic algorithm) every generation has exactly P agents, and the loss outside it is "
              "the residual - tied to the code by the fingerprint of their population-affecting statements and by vm_compute correspondence of the recorded generation "
              "sizes of real runs (multiples and non-multiples, perturbed parameters). The three variable-by-design optimizers are checked for non-empty and <= P."),
        note=TB + " step_conforms (the step edits the population only through the writes T-algo lists) is a hypothesis; the irregular models are hand-written, not regenerated.",
        technique="Coq proof over regenerated population-write skeletons; executable hand size models (theorem + vm_compute correspondence + fingerprint) for irregular optimizers; size search",
        design="§7 C10, §0.2"),
    "C15": dict(
        text=("Proof (Coq): (i) an agent object built by a conforming optimizer is never altered afterwards (the heap of the provenance machine only "
              "grows), and a snapshot consists of those objects or of sign-restored copies (regenerated); (ii) the REGENERATED trend utilities return, per "
              "requested iteration, the field of the idx-th agent of that generation sorted in the task's direction, that agent is the idx-th best, and "
              "the last entry of best_agent_trend is the cost of any optimal member of the last generation (best_solution, C03). Tie: bridges, "
              "vm_compute correspondence of utils.py, independent deep snapshots after every cycle of all real optimizers."),
        note=TB + " Fidelity is over position/cost/fitness; private bookkeeping fields of agent subclasses are outside it.",
        technique="Coq proof (append-only heap; sorted-list ranking) + vm_compute correspondence + snapshot search",
        design="§7 C15"),
    "C17": dict(
        text=("Proof (Coq): for every optimizer in the pinned structurally-elitist set (57; the set is recomputed from the source on every run and must "
              "contain the pinned one) and every step that edits the population only through its listed writes, each generation contains an agent at "
              "least as good as every agent of every earlier generation, on internal costs and - via the sign restoration - in the task's direction for "
              "min and max alike; hence best_solution is the best ever recorded. Uses the regenerated greedy/trim helpers (C16). The judgement behind each map-style write "
              "('every slot's new agent is not worse than its incumbent') is re-derived inside Coq: element functions extracted as programs (gen/ElitProgs.v) and decided by an "
              "analysis proved sound for every oracle (ElitLang.agood_sound; C17_wmap_judgement_rederived). 13 further optimizers, elitist by observation "
              "only (monotone in >= 950 runs each on the pinned tree), are covered by SEARCH ONLY, pinned by the hash of their source; fresh and reused instances, noisy / stateful objectives (a kept agent keeps the cost recorded when it was built)."),
        note=TB + " Classification is conservative (syntactic); step_conforms is a hypothesis; no NaN costs; population_size >= 1.",
        technique="Coq proof (keeps_best for each elitist population write, induction over writes and cycles) + search over the elitist set",
        design="§7 C17"),
    "C07": dict(
        text=("Proof (Coq): the regenerated optimize() schema seeds numpy's stream from the task before anything draws and Task.seed is an integer field; "
              "for every exported optimizer (skeleton facts regenerated by T-algo: no entropy source other than the seeded stream, transitively through "
              "helpers.py; no field read before it is assigned in the run - per-run base fields DERIVED from the real optimize(); no set iterated in hash order anywhere in the package) the dependency theorem gives: the result of a serial call is a function of (task incl. "
              "seed, configuration, arguments) only - not of the stream's earlier state nor of any other entropy - for every numeric kernel. Tightness lemma: an "
              "entropy read admits two differing runs. Search: seeded reruns across processes after unrelated draws, incl. fully tied populations."),
        note=TB + " np.random.seed(int) determines the subsequent stream (oracle law); serial mode; the abstract call machine has five locations (inputs, numpy stream, other entropy, instance state, result).",
        technique="Coq non-interference (dependency) theorem over regenerated skeleton facts + seeded-rerun search",
        design="§7 C07 / dependency theorem"),
    "C08": dict(
        text=("Proof (Coq): the regenerated schema resets the per-run bookkeeping; for every exported optimizer no instance field is read before it is assigned in "
              "the same run (regenerated def-use facts), hence by the dependency theorem the result does not depend on what earlier runs left in the instance. "
              "Tightness: a stale read admits a difference. Tie/search: scripted second runs vs the model (C04 machinery), every real optimizer reused 1-2 times "
              "vs a fresh instance, and reconfigured instances (C18)."),
        note=TB + " Serial mode, equal arguments; constructor-only fields are constants (inputs).",
        technique="Coq non-interference theorem over regenerated def-use facts + reuse search",
        design="§7 C08"),
    "C09": dict(
        text=("Proof (Coq): for every exported optimizer no store, augmented assignment or mutating call reaches the caller's configuration or task - directly or "
              "through a local alias of one of their sub-objects (regenerated facts) - so in the call machine the inputs location is in no operation's write set and "
              "keeps its value after any number of cycles (and after any prefix: a raise leaves it too). Search: model_dump of config and task before/after every run, "
              "incl. configurations with list parameters written in reverse order."),
        note=TB + " Fresh arrays built from config/task fields are not aliases.",
        technique="Coq frame theorem (untouched location) over regenerated write facts + before/after comparison search",
        design="§7 C09"),
    "C12": dict(
        text=("Proof (Coq): for every optimizer pinned as fitness- and direction-blind (82; recomputed on every run, must contain the pinned set) the positions and "
              "internal costs of all agents after every cycle are the same function of (seed, configuration, internal objective) whatever the direction and the "
              "fitness values are (taint-style non-interference over the dual call machine, budget-only stopping); the regenerated _fcn makes the internal objective "
              "of maximising f equal to that of minimising -f for every objective value, and the regenerated result constructors restore the sign by xneg. "
              "Search: run(max, f) vs run(min, -f), equal seeds, incl. an objective that is NaN on part of the box."),
        note=TB + " fitness_error = None and no early stopping; Ant Lion (reads fitness) and Imperialist Competitive (reads the direction) are outside the domain.",
        technique="Coq taint non-interference over regenerated read facts + regenerated _fcn bridge; paired-run search",
        design="§7 C12"),
    "C18": dict(
        text=("Proof (Coq): for every exported optimizer the constructor dereferences nothing of the configuration and set_config_parameters is exactly "
              "`self._config = Config(**parameters)` (regenerated facts); optimize() without a configuration raises ValueError before any cycle (regenerated schema); "
              "a run after set_config_parameters(d) equals a run of an instance constructed with that configuration (same inputs, result depends on inputs only: C08). "
              "Search: all 84 classes through the API incl. rejected dictionaries, seeded run equivalence, reconfigured used instances."),
        note=TB + " pydantic validation of the config class is the reference for accepted / rejected dictionaries.",
        technique="Coq (facts by computation over regenerated skeletons + schema theorem + non-interference) + API search",
        design="§7 C18"),
    "C19": dict(
        text=("Proof (Coq, Grid.v/Rank.v): for every parameter grid (any number of sub-grids, keys, values) len = number of iterated points, "
              "getitem i = i-th iterated point for every i < len and IndexError beyond, the iterated points are exactly the union of the Cartesian "
              "products of the sub-grids; the evaluation plan of execute() is grid x trials with each pair exactly once; for every score table "
              "(ties, equal means with different spreads, NaN spreads for one trial) and both directions the selected row has an optimal mean "
              "(model of pandas rank(average) on mean and std, dense rank of the pair, first row of minimal rank); set_config_parameters of all 84 optimizers REPLACES the "
              "configuration (regenerated fact), so a point is evaluated with exactly its parameters. Tie: ParameterGrid and the "
              "selection model are hand-written; the statements of execute()/resolve() they describe are pinned by shape extraction (fail closed) "
              "and the models are compared by vm_compute with the real ParameterGrid (exhaustive 0-3 keys x 1-3 values, dict / list of dicts) and "
              "with the real pandas selection on generated tables; execute()/resolve() run for real with a table-driven optimizer and with real optimizers on heterogeneous grids."),
        note=TB + " pandas mean/std values are taken from the real DataFrame (rank semantics modelled, differentially checked); means not NaN; "
                  "process pool of execute() exercised, not modelled; the tie to hypertuner.py is shape-pinning + correspondence, not translation.",
        technique="Coq proof on hand model (grid product/divmod induction; rank-selection optimality) + shape pin + vm_compute correspondence + real execute() runs",
        design="§7 C19"),
    "C20": dict(
        text=("Proof (Coq, Multi.v): for all n, m the broadcasting of `modes` (branch order of __check_input__ as in the code) designates for each "
              "(algorithm, task) pair the documented mode in each of the four shapes and serial for None; other lengths and unknown modes are rejected "
              "at construction; the execution plan contains every (algorithm, task, trial 1..k) exactly once with that mode (n*m*k evaluations). "
              "Ambiguous lengths (n = m, n or m = 1) resolve in the code's branch order, stated as hypotheses of the shape theorems. Tie: __check_input__, __check_modes__ and "
              "__get_mode__ are REGENERATED by T-core and bridged to the model (end-to-end theorem on the regenerated methods); execute/__parallelize__/__run__/export and "
              "enums.MetaEnum/ModeSolver pinned by shape extraction (fail closed); correspondence by vm_compute of check_input/get_mode tables against the real "
              "constructor for n, m in 1..3, every shape and mode value; execute() and export_results run for real with reporting optimizers "
              "(modes, workers, tasks seen; table shapes; one file per algorithm under <save_path>/<name>/ for the three formats), and with a real optimizer checking "
              "WHERE the evaluations of a process / thread / serial pair really ran and that what execute() returns for each pair is that run's result (whole generations, best_solution the optimum of the last one, the serial pair equal to a direct run)."),
        note=TB + " Process pool and file system exercised, not modelled; tie is shape-pinning + correspondence, not translation.",
        technique="Coq proof on hand model (list/nth arithmetic) + shape pin + vm_compute correspondence + real execute()/export runs",
        design="§7 C20"),
    "C11": dict(
        text=("PARTIAL proof. Proved (Coq): with the pool modelled as 'results arrive in an arbitrary permutation' (any completion order, any worker count), "
              "the REGENERATED pooled _generate_agents/_init_population yields exactly population_size agents, one per submitted evaluation, the k-th evaluation "
              "receiving the k-th position drawn by the submitting process - so distinct draws give pairwise distinct initial points, whereas draws made "
              "inside forked workers replay one stream (the repaired defect, as a theorem about the alternative schema); the REGENERATED pooled "
              "_greedy_select_population keeps the same agents as the serial one (a permutation of it); per-result guarantees (C01/C02) carry over a "
              "permutation and C03/C10 hold for every order. NOT proved: that CPython's executors and fork stay inside that envelope - exercised by real "
              "thread/process runs with injected delays."),
        note=TB + " get_pool_executor/get_pool_results pinned by shape; OS scheduling and fork semantics modelled as permutation/assignment nondeterminism.",
        technique="Coq proof (permutation-invariance over regenerated pooled branches) + shape pin + real pooled runs with delays",
        design="§7 C11"),
    "C06": dict(
        text=("PARTIAL proof. Proved (Coq), on the REGENERATED optimize() schema, _init_agent, Task.validate_objective_weights and variable validators: "
              "a call without configuration, with non-positive workers or an unknown mode ends in ValueError with zero optimization steps, for every optimizer and "
              "instance history; the statements before the loop (entry checks, hooks, initial population) execute no optimization step however they end; a weight / "
              "objective count mismatch makes every agent construction fail (so it surfaces while the initial population is built); negative or NaN weights, inverted or "
              "equal bounds, mismatched bound lists and non-positive binary sizes are rejected at construction, and exactly those; on a valid call the framework's own "
              "operations do not fail - agent construction from a well-shaped candidate succeeds for min and max, scalar and weighted multi-objective (the sign flip of a list of "
              "objectives keeps its length), and with non-empty generations the run returns a complete result (K+1 generations, K rates, K <= max_cycles). NOT proved: that the interior "
              "of the 84 numpy kernels raises no Python error on every valid task - no Gallina model expresses numpy's dynamic typing and broadcasting; that half is the keyed "
              "failure census (testing): strict on continuous tasks (any failure not listed as a known finding is a violation), per (optimizer, encoding) pair against a committed "
              "works-today baseline on integer-coded tasks. The task-level rejection rows are also probed in a fresh interpreter started with -O (validators written as assert)."),
        note=TB + " The census is a search, not a proof; failure keys are (optimizer, exception type, innermost pyvolutionary function); 9 known findings with deterministic replays.",
        technique="Coq proof (rejection table + no-step-before-loop on the regenerated schema; regenerated validators; framework totality) + keyed failure census over all optimizers",
        design="§7 C06"),
}

PENDING_REASON = "check not built yet in this round (work in progress, see DESIGN.md §11 build order); not claimed until its check exists"


def main():
    checks = []
    for pid in ALL:
        if pid not in CLAIMED:
            continue
        c = CLAIMED[pid]
        checks.append({
            "property_id": pid,
            "quick_cmd": f"./check {pid} --tier quick",
            "thorough_cmd": f"./check {pid} --tier thorough",
            "evidence_file": f"/verif/evidence/{pid}.json",
            "replay_cmd_template": f"./check {pid} --replay {{path}}",
            "engine": "coq-proof",
            "level_claimed": {"category": "proof", "text": c["text"], "design_ref": c["design"]},
            "level_note": c["note"],
            "technique": c["technique"],
        })
    m = {
        "version": 1,
        "setup_cmd": "./setup.sh",
        "hooks": {
            "guard": "PYVOLUTIONARY_VERIF",
            "enable": "no source hooks are needed: all instrumentation is applied from the harness (subclassing / wrapping); "
                      "checks export PYVOLUTIONARY_VERIF=1 for interface completeness",
            "baseline_off_cmd": "cd /repo && /venv/bin/python -m pytest -ra -q -p no:cacheprovider --timeout=900 --continue-on-collection-errors",
            "source_commits": [],
            "add_only": True,
        },
        "engines": [{
            "name": "coq-proof", "path": "/verif/coq",
            "serves_properties": sorted(CLAIMED),
            "kind_free_text": "Coq 8.16.1 development: hand model (theories/), definitions and skeletons regenerated from /repo on every run "
                              "(gen/), bridge lemmas (bridge/), property theorems (props/); correspondence and search drivers in /verif/pv",
        }],
        "checks": checks,
        "notes": "One driver: ./check <ID> [--tier quick|thorough] [--replay file]. See DESIGN.md.",
        "not_applicable": [{"property_id": p, "reason": PENDING_REASON} for p in ALL if p not in CLAIMED],
    }
    (VERIF / "MANIFEST.json").write_text(json.dumps(m, indent=1) + "\n")


if __name__ == "__main__":
    main()
