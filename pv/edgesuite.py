"""The edge suite: one family of REAL runs per corner a change can hide in, shared by the searches of the per-run properties (C01, C02, C03, C05, C10, C15, C17).

Six rounds of seeded changes showed one recurring pattern: a change confined to a corner (integer-coded or tiny search spaces, weighted multi-objective tasks with
stored rows, process mode with many workers, parameters at the edge of the validators, long runs, many dimensions, a used task object) was found by the property
whose search happened to visit that corner and only as a broken tie by the others.  Every property now visits every corner; each applies its OWN oracle to the
observations.  Testing only - it supports the search for a failing input, never a theorem.

Families carry a tag; an oracle skips the families outside its property's quantifier (e.g. C10 speaks about populations at the documented scale: the `edge-config`
family, which shrinks the population to 1-5 agents, is not a size observation)."""
from __future__ import annotations

from . import search, census


def _int_pairs():
    from .expected import load_expectations
    works = {}
    for w in load_expectations().get("c06_int_works", []):
        nm, enc = w.split("|")
        works.setdefault(nm, []).append(enc)
    return works


def jobs(ctx, names=None, focus=(), record=True, snapshots=True):
    """names: optimizers to visit (default: a sample in quick mode, everything in thorough); focus: optimizers visited in every family regardless"""
    r = ctx.rng
    alln = search.all_names()
    if names is None:
        k = (8 if ctx.quick else len(alln)) * (ctx.boost if ctx.quick else 1)
        names = r.sample(alln, min(len(alln), k))
    names = list(dict.fromkeys(list(names) + [n for n in focus if n in alln]))
    works = _int_pairs()
    out = []

    def add(family, nm, cfg, task, **kw):
        j = {"opt": nm, "family": "edge:" + family, "cfg": {"fitness_error": None, **cfg}, "task": task, "timeout": 60 if ctx.quick else 300, **kw}
        if record: j["record"] = True
        if snapshots: j["snapshots"] = True
        out.append(j)

    from . import validators
    for nm in names:
        P0 = search.fixture_scale(nm)["population_size"]
        sd = lambda: r.randint(0, 10**6)
        mm = lambda: r.choice(["min", "max"])
        encs = works.get(nm, [])
        # (a) integer-coded: a space with fewer positions than agents, a permutation, a mixed task (only encodings this optimizer is known to run on, when known)
        tiny = r.choice([[("binary", 3)], [("discmulti", [2, 2])], [("binary", 2), ("disc", 2)]])
        add("tiny-discrete", nm, {"max_cycles": 6, "population_size": P0}, {"vars": tiny, "obj": r.choice(["abs", "linear"]), "minmax": mm(), "seed": sd()})
        for enc in [e for e in ("perm", "mixed", "discmulti", "binary") if (not encs or e in encs)][:3]:
            add("int:" + enc, nm, {"max_cycles": r.choice([6, 25]), "population_size": P0},
                {"vars": census.INT_ENCODINGS[enc](), "obj": r.choice(["sphere", "linear", "abs"]), "minmax": mm(), "seed": sd()})
        # (b) weighted multi-objective, weights that do not sum to one, the objective handing out stored rows
        add("weighted", nm, {"max_cycles": 4, "population_size": P0},
            {"vars": [("multiobj", ([-4.0, -4.0], [4.0, 4.0]))], "obj": r.choice(["multi2", "cached:multi2"]), "minmax": mm(),
             "weights": r.choice([[2.0, 1.0], [0.25, 0.25], [1.0, 10.0], [3.0, 0.5]]), "seed": sd()})
        # (c) pooled modes, incl. more workers than agents to create
        add("process", nm, {"max_cycles": 2, "population_size": P0}, search.cont_task(obj="sphere", minmax=mm(), seed=sd()), mode="process", workers=r.choice([2, 4, P0 + 4]))
        add("thread", nm, {"max_cycles": 3, "population_size": P0}, search.cont_task(obj="step", minmax=mm(), seed=sd()), mode="thread", workers=r.choice([2, 3, 8]))
        # (d) parameters at the edge of the validators (one numeric parameter at its smallest / largest accepted value, populations of 1-5)
        ec = validators.edge_configs(nm)
        for cfg in (r.sample(ec, min(len(ec), 4 if ctx.quick else len(ec)))):
            add("edge-config", nm, {**cfg, "max_cycles": 8}, search.cont_task(obj=r.choice(["sphere", "rastrigin"]), minmax=mm(), seed=sd(), dim=r.choice([2, 3])))
        ec0 = [c for c in validators.edge_configs(nm, sizes=(P0,)) if len(c) > 1]
        for cfg in (r.sample(ec0, min(len(ec0), 2 if ctx.quick else len(ec0)))):
            add("edge-param", nm, {**cfg, "max_cycles": 8}, search.cont_task(obj=r.choice(["sphere", "rastrigin"]), minmax=mm(), seed=sd(), dim=3))
        # (e) a long run and many dimensions
        add("long", nm, {"max_cycles": 150 if ctx.quick else 600, "population_size": P0}, search.cont_task(obj=r.choice(["step", "rastrigin"]), minmax=mm(), seed=sd(), dim=2))
        add("high-dim", nm, {"max_cycles": 3, "population_size": P0}, search.cont_task(obj="sphere", minmax=mm(), seed=sd(), dim=r.choice([25, 40])))
        # (f) a task OBJECT with a history, and an instance with a history
        add("used-task", nm, {"max_cycles": 3, "population_size": P0},
            {"vars": r.choice([[("contmulti", ([-3.0, -3.0], [3.0, 3.0]))], census.INT_ENCODINGS["mixed"]()]), "obj": "sphere", "minmax": mm(), "seed": sd()},
            used_task={"draws": r.randint(1, 4), "runs": 1})
        add("reused-instance", nm, {"max_cycles": 3, "population_size": P0}, search.cont_task(obj="shifted", minmax=mm(), seed=sd()),
            sequence=[{"task": search.cont_task(obj="sphere", minmax=mm(), seed=sd(), dim=r.choice([2, 5]))}])
        # (g) other objects used EARLIER IN THE SAME INTERPRETER (and kept alive): another instance of the class with one parameter / the population size slightly
        #     different, another task of the same class with other bounds and another dimension - nothing of them may reach this run (class- or module-level state)
        cfg0 = {"max_cycles": 3, "population_size": P0}
        pre = []
        ec1 = [c for c in validators.edge_configs(nm, sizes=(P0,)) if len(c) > 1]
        if ec1: pre.append({"opt": nm, "cfg": {"fitness_error": None, **r.choice(ec1), "max_cycles": 2}, "task": search.cont_task(obj="sphere", seed=sd(), dim=3)})
        pre.append({"opt": nm, "cfg": {"fitness_error": None, "max_cycles": 2, "population_size": P0 + r.choice([-3, -2, -1, 1, 2, 3])},
                    "task": search.cont_task(obj="sphere", lo=5.0, hi=9.0, seed=sd(), dim=r.choice([2, 4]))})
        r.shuffle(pre)
        add("shared", nm, cfg0, search.cont_task(obj=r.choice(["sphere", "shifted"]), minmax=mm(), seed=sd(), dim=3), pre_jobs=pre)
        # (h') the direction assigned as the documented string after construction
        add("assigned-direction", nm, {"max_cycles": 4, "population_size": P0}, search.cont_task(obj=r.choice(["sphere", "shifted"]), minmax=mm(), seed=sd(), raw_minmax=True), trends=True)
        # (h) a bi-level objective: two of its evaluations run another instance of the same class to completion (two runs of one class interleaved in one interpreter)
        add("nested", nm, {"max_cycles": 5, "population_size": P0, "early_stopping": r.choice([None, {"patience": 2, "min_delta": 0.05}])},
            search.cont_task(obj="sphere", minmax=mm(), seed=sd(), dim=2,
                             nested={"opt": nm, "at": [2, P0 + 3, 2 * P0 + 5], "cfg": {"fitness_error": None, "max_cycles": 3, "population_size": P0}, "task": search.cont_task(obj="shifted", seed=sd(), dim=3)}))
    return out


OUTSIDE = {
    # oracle -> families that are not observations for it
    "size": ("edge:edge-config", "edge:edge-param"),    # C10: populations at the documented scale (1x-3x), the optimizer's own divisibility side conditions respected
}


def decide(ctx, obs, oracle: str, **kw):
    """apply ONE property's oracle to the edge observations; returns the number of observations it used"""
    import json
    from . import provsearch
    used = [o for o in obs if o["job"].get("family") not in OUTSIDE.get(oracle, ())]
    if oracle in ("space", "cost", "calls"):
        provsearch.decide(ctx, used, {oracle})
        return len(used)
    n = 0
    for o in used:
        if not o["ok"]: continue
        n += 1
        j = o["job"]
        if oracle == "best":
            from .props import c03
            probs = c03.oracle_obs(o)
        elif oracle == "size":
            from .props import c10
            probs = c10.size_problems(o, kw["by_design"])
        elif oracle == "history":
            from .props import c15
            probs = c15.history_problems(o)
        elif oracle == "stop":
            from .props import c04
            probs = c04.stop_problems(o)
        elif oracle == "monotone":
            from .props import c17
            probs = c17.monotone_problems(o) if j["opt"] in kw["elitist"] else []
        else:
            raise ValueError(oracle)
        for p in probs:
            ctx.violation(f"{oracle}:{j['opt']}:{j['family']}", f"{j['opt']} [{j['family']}]: {p}", {"kind": "job", "job": j})
    return n


def run(ctx, oracle: str, focus=(), names=None, info=None, **kw):
    from . import hot
    changed = hot.changed_sources(info) if info is not None else []
    js = jobs(ctx, names=names, focus=list(focus) + changed, record=oracle == "calls", snapshots=oracle == "history")
    # the source-directed campaign: optimizers whose package changed since the pinned tree (thorough: everybody, once)
    hot_names = changed if ctx.quick else sorted(set(search.all_names()) | set(changed))
    if oracle == "monotone": hot_names = [n for n in hot_names if n in kw["elitist"]]
    grid_for = set(changed) | (set(hot_names) if oracle == "size" else set())          # the fine parameter grid: changed optimizers always; everybody for the size oracle
    js += hot.jobs(ctx, hot_names, reps=(4 if ctx.quick else 1), record=oracle == "calls", snapshots=oracle == "history", grid_for=grid_for)
    if changed: ctx.coverage["changed_optimizer_sources"] = changed
    obs = search.run_jobs(js)
    n = decide(ctx, obs, oracle, **kw)
    fams = {}
    for o in obs:
        f = o["job"]["family"]; fams.setdefault(f, [0, 0]); fams[f][0] += 1; fams[f][1] += 1 if o["ok"] else 0
    ctx.coverage["edge_suite"] = {"jobs": len(js), "used_by_oracle": n, "families": {f: {"jobs": a, "completed": b} for f, (a, b) in sorted(fams.items())}}
    ctx.coverage["evaluations"] += len(js)
    return n
