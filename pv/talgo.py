"""T-algo: each exported optimizer -> a structural skeleton (DESIGN.md §5.2), regenerated from /repo.

Three independent, conservative (fail-closed) syntactic analyses over an optimizer's package:
  A. provenance facts  — where agent objects can come from and whether their core fields
     (position, cost, fitness) can be written after construction          (C01, C02, C05, C15)
  B. population writes — every statement that replaces / edits self._population, classified
     by shape, with the element expression's elitism w.r.t. the slot's incumbent      (C10, C17)
  C. field def-use, config / task writes, entropy sources, constructor dereferences,
     fitness / direction reads                                   (C07, C08, C09, C12, C18)
Anything not recognised becomes a non-conforming fact (raw site, WOther, stale read ...).
"""
from __future__ import annotations
import ast
import hashlib
from pathlib import Path

CORE = ("position", "cost", "fitness")
MUTATORS = {"append", "extend", "insert", "pop", "remove", "clear", "sort", "reverse", "update", "add", "discard",
            "setdefault", "popitem", "fill", "put", "itemset", "resize", "partition", "setfield", "__setitem__"}
REFLECT = {"setattr", "delattr", "__setattr__", "__dict__", "model_construct", "model_validate", "parse_obj", "construct",
           "object.__setattr__", "vars", "globals", "exec", "eval"}
BASE_INPUT_FIELDS = {"_config", "_debug", "_mode", "_workers", "EPS"}


def unparse(n) -> str:
    return ast.unparse(n)


def is_self_attr(n, attr=None) -> bool:
    return isinstance(n, ast.Attribute) and isinstance(n.value, ast.Name) and n.value.id == "self" and (attr is None or n.attr == attr)


def self_root(n):
    """'a' if n is self.a, self.a.b, self.a[i].c ... else None"""
    while isinstance(n, (ast.Attribute, ast.Subscript)):
        if is_self_attr(n): return n.attr
        n = n.value
    return None


# ----------------------------------------------------------------------------------------------- discovery
def discover(repo: Path):
    """[(class name, class node, module tree, package dir, module path)] for every exported optimizer"""
    root = repo / "pyvolutionary"
    exported = set()
    init = ast.parse((root / "__init__.py").read_text())
    for n in ast.walk(init):
        if isinstance(n, ast.ImportFrom):
            names = {a.asname or a.name for a in n.names}
            if "*" in names and n.level == 1 and n.module and (root / n.module / "__init__.py").exists():
                sub = ast.parse((root / n.module / "__init__.py").read_text())
                for m in ast.walk(sub):
                    if isinstance(m, ast.ImportFrom):
                        subnames = {a.asname or a.name for a in m.names}
                        if "*" in subnames and m.level == 1 and m.module and (root / n.module / (m.module + ".py")).exists():
                            t2 = ast.parse((root / n.module / (m.module + ".py")).read_text())
                            subnames = {c.name for c in t2.body if isinstance(c, ast.ClassDef) and not c.name.startswith("_")}
                        exported |= subnames
            else:
                exported |= names
    found = {}
    for f in sorted(root.glob("*/*.py")):
        if f.name == "__init__.py": continue
        try:
            tree = ast.parse(f.read_text())
        except SyntaxError:
            continue
        for c in tree.body:
            if isinstance(c, ast.ClassDef) and any(unparse(b).split("[")[0] in ("OptimizationAbstract",) or unparse(b).endswith("Optimization") for b in c.bases):
                found[c.name] = (c, tree, f.parent, f)
    out = []
    for name in sorted(found):
        if name in exported:
            out.append((name,) + found[name])
    missing = sorted(n for n in exported if (n.endswith("Optimization") or n.endswith("Algorithm")) and n not in found and not n.endswith("Config"))
    return out, missing


def agent_classes(pkg: Path) -> set[str]:
    names = {"Agent"}
    trees = []
    for f in pkg.glob("*.py"):
        try: trees.append(ast.parse(f.read_text()))
        except SyntaxError: pass
    changed = True
    while changed:
        changed = False
        for t in trees:
            for n in ast.walk(t):
                if isinstance(n, ast.ClassDef) and n.name not in names and any(isinstance(b, ast.Name) and b.id in names for b in n.bases):
                    names.add(n.name); changed = True
                if isinstance(n, ast.ImportFrom):
                    for a in n.names:
                        if a.name in names and a.asname and a.asname not in names:
                            names.add(a.asname); changed = True
    return names


# ----------------------------------------------------------------------------------------------- A. provenance
def provenance(pkg: Path, cls: ast.ClassDef, base_cls: ast.ClassDef | None) -> dict:
    ac = agent_classes(pkg)
    raw_sites, core_writes, objective_calls, reflect = [], [], [], []
    for f in sorted(pkg.glob("*.py")):
        if f.name == "__init__.py": continue
        tree = ast.parse(f.read_text())
        # names that alias a position list:  x = <expr>.position  (no copying wrapper)
        aliases = set()
        for n in ast.walk(tree):
            if isinstance(n, ast.Assign) and isinstance(n.value, ast.Attribute) and n.value.attr == "position":
                for t in n.targets:
                    if isinstance(t, ast.Name): aliases.add(t.id)
            if isinstance(n, (ast.For, ast.comprehension)) and isinstance(n.iter, ast.ListComp) and isinstance(n.iter.elt, ast.Attribute) and n.iter.elt.attr == "position":
                if isinstance(n.target, ast.Name): aliases.add(n.target.id)
        for n in ast.walk(tree):
            where = f"{f.name}:{getattr(n, 'lineno', 0)}"
            # construction sites
            if isinstance(n, ast.Call) and isinstance(n.func, ast.Name) and n.func.id in ac:
                dstar = [k.value for k in n.keywords if k.arg is None]
                kws = [k.arg for k in n.keywords if k.arg is not None]
                ok = (not n.args and len(dstar) == 1 and isinstance(dstar[0], ast.Call) and isinstance(dstar[0].func, ast.Attribute)
                      and dstar[0].func.attr == "model_dump" and not dstar[0].args and not dstar[0].keywords and not any(k in CORE for k in kws))
                if not ok: raw_sites.append(f"{where}: {unparse(n)[:70]}")
            # stores to core fields
            if isinstance(n, (ast.Assign, ast.AugAssign, ast.AnnAssign, ast.Delete)):
                tgts = n.targets if isinstance(n, (ast.Assign, ast.Delete)) else [n.target]
                flat = []
                for t in tgts: flat += list(t.elts) if isinstance(t, (ast.Tuple, ast.List)) else [t]
                for t in flat:
                    b = t
                    while isinstance(b, ast.Subscript): b = b.value            # x.position[i] = ...
                    if isinstance(b, ast.Attribute) and b.attr in CORE and not is_self_attr(b):
                        core_writes.append(f"{where}: {unparse(t)[:60]}")
                    if isinstance(t, ast.Subscript):
                        b2 = t.value
                        while isinstance(b2, ast.Subscript): b2 = b2.value
                        if isinstance(b2, ast.Name) and b2.id in aliases:
                            core_writes.append(f"{where}: {unparse(t)[:60]} (alias of a position list)")
                    if isinstance(n, ast.AugAssign) and isinstance(t, ast.Name) and t.id in aliases:
                        core_writes.append(f"{where}: {unparse(n)[:60]} (in-place update of an alias of a position list)")
            if isinstance(n, ast.Call) and isinstance(n.func, ast.Attribute):
                if n.func.attr in MUTATORS:
                    b = n.func.value
                    while isinstance(b, ast.Subscript): b = b.value
                    if (isinstance(b, ast.Attribute) and b.attr in CORE and not is_self_attr(b)) or (isinstance(b, ast.Name) and b.id in aliases):
                        core_writes.append(f"{where}: {unparse(n)[:60]}")
                if n.func.attr in ("model_copy", "copy") and any(k.arg == "update" for k in n.keywords):
                    u = next(k.value for k in n.keywords if k.arg == "update")
                    if not isinstance(u, ast.Dict) or any(not isinstance(k, ast.Constant) or k.value in CORE for k in u.keys):
                        core_writes.append(f"{where}: {unparse(n)[:70]}")
                if n.func.attr in ("objective_function", "solve", "_fcn"):
                    objective_calls.append(f"{where}: {unparse(n)[:60]}")
            if isinstance(n, ast.Call) and any(k.arg in ("position", "cost", "fitness") for k in n.keywords) \
                    and not (isinstance(n.func, ast.Attribute) and n.func.attr == "_init_agent") \
                    and not (isinstance(n.func, ast.Name) and n.func.id in ac):
                raw_sites.append(f"{where}: {unparse(n)[:70]}")          # anything built from explicit core fields
            if isinstance(n, ast.Dict) and any(isinstance(k, ast.Constant) and k.value in ("position", "cost") for k in n.keys):
                raw_sites.append(f"{where}: dict with core keys")
            if isinstance(n, (ast.Name, ast.Attribute)) and (getattr(n, "id", None) in REFLECT or getattr(n, "attr", None) in REFLECT):
                reflect.append(f"{where}: {unparse(n)[:40]}")
    # _init_agent override: must be exactly  agent = super()._init_agent(position[=position]); return Cls(**agent.model_dump(), extras)
    methods = {m.name: m for m in cls.body if isinstance(m, ast.FunctionDef)}
    init_ok = True
    if "_init_agent" in methods:
        m = methods["_init_agent"]
        sup = [c for c in ast.walk(m) if isinstance(c, ast.Call) and isinstance(c.func, ast.Attribute) and c.func.attr == "_init_agent"
               and isinstance(c.func.value, ast.Call) and unparse(c.func.value.func) == "super"]
        first = [a.arg for a in m.args.args][1:2]
        init_ok = (len(sup) == 1 and first == ["position"]
                   and ((len(sup[0].args) == 1 and unparse(sup[0].args[0]) == "position" and not sup[0].keywords)
                        or (not sup[0].args and len(sup[0].keywords) == 1 and sup[0].keywords[0].arg == "position" and unparse(sup[0].keywords[0].value) == "position")))
        for r in ast.walk(m):
            if isinstance(r, ast.Return) and r.value is not None:
                v = r.value
                wrap = (isinstance(v, ast.Call) and isinstance(v.func, ast.Name) and v.func.id in ac) or (isinstance(v, ast.Name))
                init_ok = init_ok and wrap
        # no other assignment to `position` inside the override
        for a in ast.walk(m):
            if isinstance(a, (ast.Assign, ast.AugAssign)) and any(isinstance(t, ast.Name) and t.id == "position" for t in (a.targets if isinstance(a, ast.Assign) else [a.target])):
                init_ok = False
    for forbidden in ("_fcn", "optimize", "_generate_agents", "__error_check__", "__should_stop__"):
        if forbidden in methods:
            raw_sites.append(f"overrides {forbidden}")
    return {"raw_sites": raw_sites, "core_writes": core_writes, "objective_calls": objective_calls, "reflect": reflect, "init_agent_ok": init_ok}


# ----------------------------------------------------------------------------------------------- B. population writes
class Elit:
    """is an expression's value an agent whose cost is not worse than the cost of the slot's incumbent?"""
    def __init__(self, methods: dict, greedy_kind: str):
        self.methods, self.gk = methods, greedy_kind

    def expr(self, e, good: set, fns: dict, depth=0) -> bool:
        if depth > 6: return False
        if isinstance(e, ast.Name): return e.id in good
        if isinstance(e, ast.IfExp): return self.expr(e.body, good, fns, depth) and self.expr(e.orelse, good, fns, depth)
        if isinstance(e, ast.Call):
            f = e.func
            if isinstance(f, ast.Attribute) and f.attr == "model_copy" and isinstance(f.value, ast.Name) and f.value.id in good:
                return True                                    # (core updates are provenance violations, counted in A)
            if is_self_attr(f, "_greedy_select_agent") and len(e.args) == 2 and not e.keywords:
                a, b = e.args
                if self.gk == "GMin": return self.expr(a, good, fns, depth) or self.expr(b, good, fns, depth)
                if self.gk == "GGuarded": return self.expr(a, good, fns, depth)
                return False
            if isinstance(f, ast.Name) and f.id in fns:        # local function: every return must be elit w.r.t. the elit arguments
                return self.call(fns[f.id], e, good, fns, depth)
            if is_self_attr(f) and f.attr in self.methods and f.attr not in ("_init_agent", "_greedy_select_agent"):
                return self.call(self.methods[f.attr], e, good, fns, depth, skip_self=True)
            if isinstance(f, ast.Name) and f.id in ("best_agent",) and len(e.args) == 1 and isinstance(e.args[0], ast.List):
                return any(self.expr(x, good, fns, depth) for x in e.args[0].elts)     # best of a list containing an elit member (MIN)
        return False

    def call(self, fn: ast.FunctionDef, call: ast.Call, good: set, fns: dict, depth, skip_self=False) -> bool:
        params = [a.arg for a in fn.args.args]
        if skip_self and params and params[0] == "self": params = params[1:]
        if fn.args.vararg or fn.args.kwarg or len(call.args) > len(params): return False
        elit_params = {p for p, a in zip(params, call.args) if self.expr(a, good, fns, depth + 1)}
        for k in call.keywords:
            if k.arg in params and self.expr(k.value, good, fns, depth + 1): elit_params.add(k.arg)
        if not elit_params: return False
        return self.body(fn, elit_params, fns, depth + 1)

    def body(self, fn: ast.FunctionDef, elit_params: set, fns: dict, depth) -> bool:
        fns = dict(fns)
        own = [n for n in iter_own(fn)]
        for n in own:
            if isinstance(n, ast.FunctionDef) and n is not fn: fns[n.name] = n
        # greatest fixpoint: candidate names = parameters + locals; drop a name as soon as one of its bindings is not elit
        assigns: dict[str, list] = {}
        for n in own:
            if isinstance(n, ast.Assign):
                for t in n.targets:
                    for nm in names_in_target(t): assigns.setdefault(nm, []).append(n.value if isinstance(t, ast.Name) else None)
            elif isinstance(n, (ast.AugAssign, ast.AnnAssign)):
                for nm in names_in_target(n.target): assigns.setdefault(nm, []).append(getattr(n, "value", None) if isinstance(n, ast.AnnAssign) and isinstance(n.target, ast.Name) else None)
            elif isinstance(n, (ast.For, ast.comprehension)):
                for nm in names_in_target(n.target): assigns.setdefault(nm, []).append(None)
            elif isinstance(n, ast.With):
                for it in n.items:
                    if it.optional_vars is not None:
                        for nm in names_in_target(it.optional_vars): assigns.setdefault(nm, []).append(None)
            elif isinstance(n, ast.NamedExpr):
                assigns.setdefault(n.target.id, []).append(None)
        good = set(elit_params) | set(assigns)
        good -= {p for p in elit_params if p in assigns and any(v is None for v in assigns[p])}
        changed = True
        while changed:
            changed = False
            for nm in list(good):
                for v in assigns.get(nm, []):
                    if v is None or not self.expr(v, good, fns, depth):
                        good.discard(nm); changed = True; break
        good = {g for g in good if g in elit_params or g in assigns}
        rets = [n for n in own if isinstance(n, ast.Return)]
        if not rets: return False
        if all(r.value is not None and self.expr(r.value, good, fns, depth) for r in rets): return True
        return self.body_flow(fn, elit_params, fns, depth)

    def tuple_call(self, fn: ast.FunctionDef, call: ast.Call, good: set, fns: dict, depth, width: int) -> list:
        """per component: is it elit in every `return (e0, e1, ...)` of fn, given the elit arguments of the call (flow-sensitive walk of fn)"""
        if depth > 6: return [False] * width
        params = [a.arg for a in fn.args.args]
        if fn.args.vararg or fn.args.kwarg or len(call.args) > len(params): return [False] * width
        elit_params = {p_ for p_, a_ in zip(params, call.args) if self.expr(a_, good, fns, depth + 1)}
        for k_ in call.keywords:
            if k_.arg in params and self.expr(k_.value, good, fns, depth + 1): elit_params.add(k_.arg)
        ok = [True] * width
        rets = [n for n in iter_own(fn) if isinstance(n, ast.Return)]
        if not rets: return [False] * width
        # a conservative flow-insensitive judgement of the returned tuples: names bound exactly once to an elit expression (or elit parameters never rebound)
        assigns = {}
        for n in iter_own(fn):
            if isinstance(n, ast.Assign):
                for t in n.targets:
                    for nm in names_in_target(t): assigns.setdefault(nm, []).append(n.value if isinstance(t, ast.Name) else None)
            elif isinstance(n, (ast.AugAssign, ast.AnnAssign, ast.For, ast.comprehension)):
                tg = n.target
                for nm in names_in_target(tg): assigns.setdefault(nm, []).append(None)
        g0 = {p_ for p_ in elit_params if p_ not in assigns}
        changed = True
        cand = set(assigns)
        while changed:
            changed = False
            for nm in list(cand):
                if any(v is None or not self.expr(v, g0 | (cand - {nm}), fns, depth + 1) for v in assigns[nm]):
                    cand.discard(nm); changed = True
        g = g0 | cand
        for r_ in rets:
            if not (isinstance(r_.value, ast.Tuple) and len(r_.value.elts) == width): return [False] * width
            for i_, e_ in enumerate(r_.value.elts):
                if ok[i_] and not self.expr(e_, g, fns, depth + 1): ok[i_] = False
        return ok

    def body_flow(self, fn: ast.FunctionDef, elit_params: set, fns: dict, depth) -> bool:
        """the same question, flow-sensitively: a name may be bound first to an elit value and LATER to another candidate (`agent = strategy(x); if ..: return agent;
        agent = fresh; return greedy(x, agent)`): what matters is the binding that reaches each `return`.  Forward walk over the statements; `good` = names whose
        current binding is elit on every path reaching this point; an `if` joins by intersection; a loop first kills every name its body binds."""
        bad_ret = []

        def bound_in(stmts):
            out = set()
            for st in stmts:
                for n in ast.walk(st):
                    if isinstance(n, ast.Assign):
                        for t in n.targets: out.update(names_in_target(t))
                    elif isinstance(n, (ast.AugAssign, ast.AnnAssign)): out.update(names_in_target(n.target))
                    elif isinstance(n, (ast.For, ast.comprehension)): out.update(names_in_target(n.target))
                    elif isinstance(n, ast.NamedExpr): out.add(n.target.id)
                    elif isinstance(n, ast.With):
                        for it in n.items:
                            if it.optional_vars is not None: out.update(names_in_target(it.optional_vars))
            return out

        def walk(stmts, good, fns_):
            """returns the good set after the statements, or None when every path through them has returned / raised"""
            good = set(good); fns_ = dict(fns_)
            for st in stmts:
                if isinstance(st, ast.FunctionDef):
                    fns_[st.name] = st; good.discard(st.name); continue
                if isinstance(st, ast.Return):
                    if st.value is None or not self.expr(st.value, good, fns_, depth): bad_ret.append(st)
                    return None
                if isinstance(st, ast.Raise): return None
                if isinstance(st, ast.Assign):
                    if len(st.targets) == 1 and isinstance(st.targets[0], ast.Name):
                        nm = st.targets[0].id
                        (good.add if self.expr(st.value, good, fns_, depth) else good.discard)(nm)
                    elif len(st.targets) == 1 and isinstance(st.targets[0], ast.Tuple) and all(isinstance(e_, ast.Name) for e_ in st.targets[0].elts) \
                            and isinstance(st.value, ast.Call) and isinstance(st.value.func, ast.Name) and st.value.func.id in fns_:
                        # a, b, c = local_function(...): component i is elit when EVERY return of the callee is a tuple whose i-th element is elit (w.r.t. its elit arguments)
                        names_ = [e_.id for e_ in st.targets[0].elts]
                        ok_ = self.tuple_call(fns_[st.value.func.id], st.value, good, fns_, depth, len(names_))
                        for i_, nm in enumerate(names_):
                            (good.add if ok_[i_] else good.discard)(nm)
                    else:
                        for t in st.targets: good -= set(names_in_target(t))
                    continue
                if isinstance(st, (ast.AugAssign, ast.AnnAssign)):
                    if isinstance(st, ast.AnnAssign) and isinstance(st.target, ast.Name) and st.value is not None and self.expr(st.value, good, fns_, depth): good.add(st.target.id)
                    else: good -= set(names_in_target(st.target))
                    continue
                if isinstance(st, ast.If):
                    # `if x.cost < y.cost:` with y elit: inside the branch x is not worse than y, hence elit too (internal costs: lower is better, the direction is
                    # folded into the cost by _fcn); symmetric for `y.cost > x.cost`, and for the else-branch of `y.cost <= x.cost` ...
                    gb, ge = set(good), set(good)
                    t_ = st.test
                    if isinstance(t_, ast.Compare) and len(t_.ops) == 1 and all(isinstance(z_, ast.Attribute) and z_.attr == "cost" and isinstance(z_.value, ast.Name) for z_ in (t_.left, t_.comparators[0])):
                        l_, r_ = t_.left.value.id, t_.comparators[0].value.id
                        if isinstance(t_.ops[0], (ast.Lt, ast.LtE)):
                            if r_ in good: gb.add(l_)
                            if l_ in good: ge.add(r_)
                        elif isinstance(t_.ops[0], (ast.Gt, ast.GtE)):
                            if l_ in good: gb.add(r_)
                            if r_ in good: ge.add(l_)
                    g1 = walk(st.body, gb, fns_); g2 = walk(st.orelse, ge, fns_)
                    # names made good only by the branch condition do not survive the join unless both sides agree
                    if g1 is not None: g1 = {n_ for n_ in g1 if n_ in good or (g2 is not None and n_ in g2) or n_ in bound_in(st.body)}
                    if g2 is not None: g2 = {n_ for n_ in g2 if n_ in good or (g1 is not None and n_ in g1) or n_ in bound_in(st.orelse)}
                    if g1 is None and g2 is None: return None
                    good = g2 if g1 is None else g1 if g2 is None else (g1 & g2)
                    continue
                if isinstance(st, (ast.For, ast.While)):
                    good -= bound_in([st])
                    g1 = walk(st.body, good, fns_)               # returns inside the loop are judged with the reduced set
                    walk(st.orelse, good if g1 is None else (good & g1), fns_)
                    good = good if g1 is None else (good & g1)
                    continue
                if isinstance(st, (ast.With, ast.Try)):
                    good -= bound_in([st])
                    inner = list(st.body) + [h_ for h in getattr(st, "handlers", []) for h_ in h.body] + list(getattr(st, "orelse", [])) + list(getattr(st, "finalbody", []))
                    g1 = walk(inner, good, fns_)
                    good = good if g1 is None else (good & g1)
                    continue
                good -= bound_in([st])                           # expression statements, deletes, ... : anything they bind is unknown
            return good

        rets = [n for n in iter_own(fn) if isinstance(n, ast.Return)]
        if not rets: return False
        walk(list(fn.body), set(elit_params), fns)
        return not bad_ret


def iter_own(fn):
    """nodes of fn's body, not descending into nested function definitions / lambdas (but yielding the nested defs)"""
    stack = list(fn.body)
    while stack:
        n = stack.pop()
        yield n
        if isinstance(n, (ast.FunctionDef, ast.Lambda, ast.AsyncFunctionDef)): continue
        stack.extend(ast.iter_child_nodes(n))


def names_in_target(t):
    if isinstance(t, ast.Name): return [t.id]
    if isinstance(t, (ast.Tuple, ast.List)): return [x for e in t.elts for x in names_in_target(e)]
    if isinstance(t, ast.Starred): return names_in_target(t.value)
    return []


def greedy_kind(cls: ast.ClassDef) -> str:
    m = next((x for x in cls.body if isinstance(x, ast.FunctionDef) and x.name == "_greedy_select_agent"), None)
    if m is None: return "GMin"
    params = [a.arg for a in m.args.args]
    if params != ["self", "agent", "new_agent"]: return "GOther"
    body = [s for s in m.body if not (isinstance(s, ast.Expr) and isinstance(s.value, ast.Constant))]
    if len(body) == 1 and isinstance(body[0], ast.Return) and isinstance(body[0].value, ast.IfExp):
        ie = body[0].value
        keep_ok = unparse(ie.orelse) == "agent" or (isinstance(ie.orelse, ast.Call) and isinstance(ie.orelse.func, ast.Attribute)
                                                     and ie.orelse.func.attr == "model_copy" and unparse(ie.orelse.func.value) == "agent")
        if unparse(ie.body) == "new_agent" and keep_ok:
            if unparse(ie.test) == "new_agent.cost < agent.cost": return "GMin"
            if isinstance(ie.test, ast.BoolOp) and isinstance(ie.test.op, ast.And) and unparse(ie.test.values[0]) == "new_agent.cost < agent.cost":
                return "GGuarded"
    return "GOther"


def reachable_methods(cls_methods: dict, start: str) -> list[ast.FunctionDef]:
    seen, todo = [], [start]
    while todo:
        m = todo.pop()
        if m in seen or m not in cls_methods: continue
        seen.append(m)
        for n in ast.walk(cls_methods[m]):
            if isinstance(n, ast.Call) and is_self_attr(n.func) and n.func.attr in cls_methods: todo.append(n.func.attr)
    return [cls_methods[m] for m in seen]


def pop_iter_shape(it):
    """'plain' / 'enum' / 'zip' if the iterable ranges exactly over self._population (first zip argument), else None"""
    if is_self_attr(it, "_population"): return "plain"
    if isinstance(it, ast.Call) and isinstance(it.func, ast.Name) and it.func.id == "enumerate" and len(it.args) == 1 and is_self_attr(it.args[0], "_population"):
        return "enum"
    return None


def zipmap_shape(n: ast.Assign, cls_methods: dict, txt: str):
    """self._population, self.__f = map(lambda x: list(x), zip(*[elt for ... in zip(self._population, self.__f)]))"""
    v = n.value
    tgt = n.targets[0]
    ok = (isinstance(v, ast.Call) and unparse(v.func) == "map" and len(v.args) == 2 and isinstance(v.args[0], ast.Lambda)
          and unparse(v.args[0].body) in ("list(x)",) and isinstance(v.args[1], ast.Call) and unparse(v.args[1].func) == "zip"
          and len(v.args[1].args) == 1 and isinstance(v.args[1].args[0], ast.Starred) and isinstance(v.args[1].args[0].value, ast.ListComp))
    if not ok: return ("WOther", False, txt)
    comp = v.args[1].args[0].value
    if len(comp.generators) != 1 or comp.generators[0].ifs: return ("WOther", False, txt)
    it = comp.generators[0].iter
    if pop_iter_shape(it) == "enum":
        return ("WZipMap", False, txt)
    if isinstance(it, ast.Call) and unparse(it.func) == "zip" and len(it.args) == 2 and is_self_attr(it.args[0], "_population") and is_self_attr(it.args[1]) \
            and len(tgt.elts) == 2 and unparse(tgt.elts[1]) == unparse(it.args[1]):
        partner = it.args[1].attr
        # every other store to the partner list must give it the population's length
        for m in cls_methods.values():
            for a in ast.walk(m):
                if isinstance(a, ast.Assign) and a is not n:
                    for t in a.targets:
                        for e in (t.elts if isinstance(t, ast.Tuple) else [t]):
                            if is_self_attr(e, partner) and m.name != "__init__" and unparse(a.value) not in ("self._population.copy()", "self._population[:]", "list(self._population)"):
                                return ("WOther", False, txt)
                if isinstance(a, ast.Call) and isinstance(a.func, ast.Attribute) and a.func.attr in MUTATORS and self_root(a.func.value) == partner:
                    return ("WOther", False, txt)
        return ("WZipMap", False, txt)
    return ("WOther", False, txt)


def popwrites_of(cls_methods: dict, phase: str, gk: str) -> list[tuple]:
    """[(kind, flag, text)] for every population-affecting statement reachable from the phase's method"""
    out = []
    el = Elit(cls_methods, gk)
    for m in reachable_methods(cls_methods, phase):
        fns = {n.name: n for n in ast.walk(m) if isinstance(n, ast.FunctionDef) and n is not m}
        for n in ast.walk(m):
            txt = unparse(n)[:90].replace("\n", " ") if isinstance(n, ast.stmt) else ""
            if isinstance(n, ast.Assign) and len(n.targets) == 1 and isinstance(n.targets[0], ast.Tuple) and n.targets[0].elts \
                    and is_self_attr(n.targets[0].elts[0], "_population"):
                out.append(zipmap_shape(n, cls_methods, txt)); continue
            if isinstance(n, ast.Assign) and any(isinstance(t, ast.Tuple) and any(self_root(e) == "_population" for e in t.elts) for t in n.targets):
                out.append(("WOther", False, txt)); continue
            if isinstance(n, ast.Assign) and any(is_self_attr(t, "_population") for t in n.targets):
                v = n.value
                if len(n.targets) != 1: out.append(("WOther", False, txt)); continue
                if isinstance(v, ast.ListComp) and len(v.generators) == 1 and not v.generators[0].ifs and pop_iter_shape(v.generators[0].iter):
                    g = v.generators[0]
                    shape = pop_iter_shape(g.iter)
                    slot = None
                    if shape == "plain" and isinstance(g.target, ast.Name): slot = g.target.id
                    if shape == "enum" and isinstance(g.target, ast.Tuple) and len(g.target.elts) == 2 and isinstance(g.target.elts[1], ast.Name): slot = g.target.elts[1].id
                    elit = slot is not None and el.expr(v.elt, {slot}, fns)
                    out.append(("WMap", elit, txt))
                elif isinstance(v, ast.Call) and unparse(v.func) == "sort_by_cost" and len(v.args) == 1 and is_self_attr(v.args[0], "_population") and not v.keywords:
                    out.append(("WSortSelf", True, txt))
                else:
                    out.append(("WOther", False, txt))
            elif isinstance(n, ast.Assign) and any(isinstance(t, ast.Subscript) and self_root(t) == "_population" for t in n.targets):
                t = n.targets[0]
                # self._population[i] = greedy(self._population[i], x)  is elit for that slot
                elit = False
                if len(n.targets) == 1 and isinstance(t.value, ast.Attribute) and is_self_attr(t.value, "_population") and isinstance(n.value, ast.Call) \
                        and is_self_attr(n.value.func, "_greedy_select_agent") and len(n.value.args) == 2 and gk in ("GMin", "GGuarded") \
                        and unparse(n.value.args[0]) == unparse(t):
                    elit = True
                out.append(("WSetItem", elit, txt))
            elif isinstance(n, (ast.AugAssign, ast.Delete)) and any(self_root(t) == "_population" for t in ([n.target] if isinstance(n, ast.AugAssign) else n.targets)):
                out.append(("WOther", False, txt))
            elif isinstance(n, ast.Expr) and isinstance(n.value, ast.Call):
                c = n.value
                if is_self_attr(c.func) and c.func.attr in ("_extend_and_trim_population", "_greedy_select_population", "_replace_and_trim_population"):
                    kind = {"_extend_and_trim_population": "WExtendTrim", "_greedy_select_population": "WGreedyPop", "_replace_and_trim_population": "WReplaceTrim"}[c.func.attr]
                    out.append((kind, kind != "WReplaceTrim", txt))
                elif isinstance(c.func, ast.Attribute) and c.func.attr in MUTATORS and self_root(c.func.value) == "_population":
                    if c.func.attr == "sort" and is_self_attr(c.func.value, "_population"): out.append(("WSortSelf", True, txt))
                    else: out.append(("WOther", False, txt))
            elif isinstance(n, ast.Call) and isinstance(n.func, ast.Attribute) and n.func.attr in MUTATORS and self_root(n.func.value) == "_population" \
                    and not any(isinstance(p, ast.Expr) and p.value is n for p in ast.walk(m)):
                out.append(("WOther", False, unparse(n)[:90]))      # e.g. x = self._population.pop(i)
    return out


def wmap_programs(cls_methods: dict, phase: str, gk: str) -> list:
    """[(flag, program text or None)] for every WMap write reachable from the phase's method, in the order popwrites_of lists them"""
    from . import elitprog
    out = []
    el = Elit(cls_methods, gk)
    for m in reachable_methods(cls_methods, phase):
        fns = {n.name: n for n in ast.walk(m) if isinstance(n, ast.FunctionDef) and n is not m}
        for n in ast.walk(m):
            if isinstance(n, ast.Assign) and len(n.targets) == 1 and is_self_attr(n.targets[0], "_population"):
                v = n.value
                if isinstance(v, ast.ListComp) and len(v.generators) == 1 and not v.generators[0].ifs and pop_iter_shape(v.generators[0].iter):
                    g = v.generators[0]
                    shape = pop_iter_shape(g.iter)
                    slot = None
                    if shape == "plain" and isinstance(g.target, ast.Name): slot = g.target.id
                    if shape == "enum" and isinstance(g.target, ast.Tuple) and len(g.target.elts) == 2 and isinstance(g.target.elts[1], ast.Name): slot = g.target.elts[1].id
                    flag = slot is not None and el.expr(v.elt, {slot}, fns)
                    prog = elitprog.element_program(cls_methods, gk, m, v, slot) if slot is not None else None
                    out.append((bool(flag), prog))
    return out


# ----------------------------------------------------------------------------------------------- C. fields
class Flow:
    """must-def / use-before-def over self.<field>, inlining self.m() and local functions at their call sites"""
    def __init__(self, methods):
        self.methods = methods; self.stale = set(); self.cfg_writes = []; self.task_writes = []; self.entropy = []
        self.reads_fitness = False; self.reads_direction = False
        self.quiet = False         # inside a method owned by the base class: its fitness / direction reads are the framework's, not the optimizer's
        self.base_nodes = set()    # id() of the FunctionDef nodes that belong to OptimizationAbstract
        self.aliases = {}          # local name -> "_config" / "_task": bound to a sub-object of the caller's object without a copy
        self.field_aliases = {}    # private field -> "_config" / "_task": self.__x = self._config.<...> (no call, no copy)

    def alias_root(self, n):
        """'_config' / '_task' if n denotes (a sub-object of) the caller's configuration / task"""
        r = self_root(n)
        if r in ("_config", "_task"): return r
        # a private field bound to a sub-object of the configuration / task: only an element store or a mutating call through it reaches the caller's object
        # (rebinding the field itself, `self.__alpha *= x` on a number, does not)
        if r in self.field_aliases and isinstance(n, ast.Subscript): return self.field_aliases[r]
        if r in self.field_aliases and isinstance(n, ast.Attribute) and not is_self_attr(n): return self.field_aliases[r]
        b = n
        while isinstance(b, (ast.Attribute, ast.Subscript)): b = b.value
        if isinstance(b, ast.Name) and b.id in self.aliases: return self.aliases[b.id]
        return None

    def alias_root_any(self, n):
        """as alias_root, for an expression used as an ARGUMENT: a sub-object of the configuration / task (not the whole object, whose fields are rebound, not mutated, by
        pydantic models - but conservatively the whole object counts too), a private field bound to one, a local alias"""
        r = self.alias_root(n)
        if r is not None: return r
        if is_self_attr(n) and n.attr in self.field_aliases: return self.field_aliases[n.attr]
        return None

    def note_write(self, root, text):
        (self.cfg_writes if root == "_config" else self.task_writes).append(text[:80])

    def note_use(self, a, defs):
        if a in self.methods or a in BASE_INPUT_FIELDS or a in getattr(self, "base_methods", ()) or (a.startswith("__") and a.endswith("__")): return
        if a not in defs: self.stale.add(a)

    def uses(self, e, defs, fns, depth):
        called = {id(n.func) for n in ast.walk(e) if isinstance(n, ast.Call)}
        for n in ast.walk(e):
            # a local function / own method used as a VALUE (map(evolve, pop), key=rank, executor.submit(self._step, x), partial(f, ...)): it runs all the same
            if isinstance(n, ast.Name) and isinstance(n.ctx, ast.Load) and n.id in fns and id(n) not in called and depth < 8:
                self.block(fns[n.id].body, set(defs), dict(fns), depth + 1)
            if isinstance(n, ast.Attribute) and isinstance(n.ctx, ast.Load) and is_self_attr(n) and n.attr in self.methods and id(n) not in called and depth < 8 \
                    and n.attr not in ("_init_agent", "optimize"):
                q = self.quiet; self.quiet = id(self.methods[n.attr]) in self.base_nodes
                self.block(self.methods[n.attr].body, set(defs), {}, depth + 1)
                self.quiet = q
            if isinstance(n, ast.Call):
                f = n.func
                if is_self_attr(f) and f.attr in self.methods and depth < 8:
                    q = self.quiet; self.quiet = id(self.methods[f.attr]) in self.base_nodes
                    defs = defs | (self.block(self.methods[f.attr].body, set(defs), {}, depth + 1) - defs) if f.attr != "_init_agent" else defs
                    if f.attr == "_init_agent": self.block(self.methods["_init_agent"].body, set(defs), {}, depth + 1)
                    self.quiet = q
                elif isinstance(f, ast.Name) and f.id in fns and depth < 8:
                    self.block(fns[f.id].body, set(defs), dict(fns), depth + 1)
                # an object of the caller (configuration / task sub-object) handed to a function that mutates that parameter in place
                fsrc = unparse(f)
                if isinstance(f, ast.Name) and f.id in HELPER_MUT:
                    pn = HELPER_PARAMS[f.id]
                    for i, a_ in enumerate(n.args):
                        a_ = a_.value if isinstance(a_, ast.Starred) else a_
                        if i in HELPER_MUT[f.id] and isinstance(a_, (ast.Attribute, ast.Subscript, ast.Name)) and self.alias_root_any(a_) is not None:
                            self.note_write(self.alias_root_any(a_), unparse(n))
                    for k_ in n.keywords:
                        if k_.arg in pn and pn.index(k_.arg) in HELPER_MUT[f.id] and self.alias_root_any(k_.value) is not None:
                            self.note_write(self.alias_root_any(k_.value), unparse(n))
                if fsrc in INPLACE_FUNCS:
                    i_ = INPLACE_FUNCS[fsrc]
                    if i_ is not None and len(n.args) > i_ and self.alias_root_any(n.args[i_]) is not None: self.note_write(self.alias_root_any(n.args[i_]), unparse(n))
                    for k_ in n.keywords:
                        if k_.arg == "out" and self.alias_root_any(k_.value) is not None: self.note_write(self.alias_root_any(k_.value), unparse(n))
                # a local function / own method called with such an object: its parameter aliases it while the body is walked
                callee = self.methods.get(f.attr) if is_self_attr(f) and f.attr in self.methods else (fns.get(f.id) if isinstance(f, ast.Name) else None)
                if callee is not None and depth < 8:
                    names_ = [a.arg for a in callee.args.posonlyargs + callee.args.args if a.arg != "self"]
                    for i, a_ in enumerate(n.args):
                        if i < len(names_) and isinstance(a_, (ast.Attribute, ast.Subscript, ast.Name)) and self.alias_root_any(a_) is not None:
                            self.aliases[names_[i]] = self.alias_root_any(a_)
                    for k_ in n.keywords:
                        if k_.arg in names_ and isinstance(k_.value, (ast.Attribute, ast.Subscript, ast.Name)) and self.alias_root_any(k_.value) is not None:
                            self.aliases[k_.arg] = self.alias_root_any(k_.value)
                if isinstance(f, ast.Attribute) and f.attr in MUTATORS:
                    a = self_root(f.value)
                    if a is not None:
                        self.note_use(a, defs)
                    ar = self.alias_root(f.value) or (self.field_aliases.get(f.value.attr) if is_self_attr(f.value) else None)
                    if ar is not None: self.note_write(ar, unparse(n))
                src = unparse(f)
                if src.startswith("random.") or src in ("time.time", "time.time_ns", "time.perf_counter", "os.urandom", "uuid.uuid4", "id", "hash", "os.getpid") \
                        or "default_rng" in src or "RandomState" in src or "SystemRandom" in src or src.startswith("secrets."):
                    self.entropy.append(src)
            if isinstance(n, ast.Attribute) and isinstance(n.ctx, ast.Load):
                if is_self_attr(n): self.note_use(n.attr, defs)
                if n.attr == "fitness" and not self.quiet: self.reads_fitness = True
                if n.attr == "minmax" and not self.quiet: self.reads_direction = True
            if isinstance(n, ast.Name) and n.id in ("calculate_fitness", "average_fitness", "TaskType") and not self.quiet:
                if n.id == "TaskType": self.reads_direction = True
                else: self.reads_fitness = True
        return defs

    def store(self, t, defs):
        if is_self_attr(t): return t.attr
        a = self_root(t)
        if a is not None:
            self.note_use(a, defs)
        if not isinstance(t, ast.Name):
            ar = self.alias_root(t)
            if ar is not None: self.note_write(ar, unparse(t))
        return None

    def block(self, body, defs, fns, depth):
        fns = dict(fns)
        for st in body:
            if isinstance(st, ast.FunctionDef): fns[st.name] = st; continue
            if isinstance(st, ast.Assign):
                defs = self.uses(st.value, defs, fns, depth)
                # x = self._config.<...>  (no call, no copy): x aliases a sub-object of the caller's configuration / task
                v = st.value
                if isinstance(v, (ast.Attribute, ast.Subscript)) and self.alias_root(v) is not None and not isinstance(v, ast.Call):
                    if not (isinstance(v, ast.Attribute) and is_self_attr(v) and v.attr in ("_config", "_task")) or True:
                        for t in st.targets:
                            if isinstance(t, ast.Name): self.aliases[t.id] = self.alias_root(v)
                else:
                    for t in st.targets:
                        if isinstance(t, ast.Name): self.aliases.pop(t.id, None)
                for t in st.targets:
                    if is_self_attr(t):
                        if isinstance(v, (ast.Attribute, ast.Subscript)) and self_root(v) in ("_config", "_task") and not (is_self_attr(v) and v.attr in ("_config", "_task")):
                            self.field_aliases[t.attr] = self_root(v)
                        else:
                            self.field_aliases.pop(t.attr, None)
                    for tt in flat_targets(t):
                        d = self.store(tt, defs)
                        if d: defs = defs | {d}
            elif isinstance(st, ast.AnnAssign):
                if st.value is not None:
                    defs = self.uses(st.value, defs, fns, depth)
                    d = self.store(st.target, defs)
                    if d: defs = defs | {d}
            elif isinstance(st, ast.AugAssign):
                defs = self.uses(st.value, defs, fns, depth)
                a = self_root(st.target)
                if a is not None:
                    self.note_use(a, defs)
                ar = self.alias_root(st.target)
                if ar is not None: self.note_write(ar, unparse(st))      # in place for lists / arrays; conservative for numbers
            elif isinstance(st, ast.If):
                defs = self.uses(st.test, defs, fns, depth)
                d1 = self.block(st.body, set(defs), fns, depth); d2 = self.block(st.orelse, set(defs), fns, depth)
                defs = d1 & d2
            elif isinstance(st, (ast.For, ast.While)):
                defs = self.uses(st.iter if isinstance(st, ast.For) else st.test, defs, fns, depth)
                self.block(st.body, set(defs), fns, depth)
                self.block(st.orelse, set(defs), fns, depth)
            elif isinstance(st, ast.Return):
                if st.value is not None: defs = self.uses(st.value, defs, fns, depth)
            elif isinstance(st, ast.Expr):
                defs = self.uses(st.value, defs, fns, depth)
            elif isinstance(st, ast.With):
                for it in st.items: defs = self.uses(it.context_expr, defs, fns, depth)
                defs = self.block(st.body, defs, fns, depth)
            elif isinstance(st, ast.Try):
                self.block(st.body, set(defs), fns, depth)
                for h in st.handlers: self.block(h.body, set(defs), fns, depth)
                self.block(st.finalbody, set(defs), fns, depth)
            else:
                for n in ast.iter_child_nodes(st):
                    if isinstance(n, ast.expr): defs = self.uses(n, defs, fns, depth)
        return defs


BASE_METHODS: set = set()


def flat_targets(t):
    """assignment targets with nested tuples / lists flattened: ((self.a,), (self.b,)) -> self.a, self.b"""
    if isinstance(t, (ast.Tuple, ast.List)):
        out = []
        for e in t.elts: out += flat_targets(e)
        return out
    if isinstance(t, ast.Starred): return flat_targets(t.value)
    return [t]


def fields(cls: ast.ClassDef, helper_entropy: dict, base_cls: ast.ClassDef | None = None) -> dict:
    """def-use facts along the run path.  The run path is the base class's optimize() itself with the optimizer's own hooks and
    helper methods inlined at their call sites (base methods the optimizer does not override are inlined too), so that which base
    fields are assigned before which hook is DERIVED from abstract.py, not assumed; the loop body is walked twice."""
    sub = {n.name: n for n in cls.body if isinstance(n, ast.FunctionDef)}
    base = {n.name: n for n in base_cls.body if isinstance(n, ast.FunctionDef)} if base_cls is not None else {}
    methods = {**base, **sub}
    fl = Flow(methods)
    fl.base_methods = BASE_METHODS
    fl.base_nodes = {id(n) for k, n in base.items() if k not in sub}
    ctor_fields, other_stores = set(), set()
    for owner in (base, sub):
        for name, m in owner.items():
            if owner is base and name in sub and name != "__init__": continue            # overridden: the base version does not run
            for n in ast.walk(m):
                if isinstance(n, (ast.Assign, ast.AnnAssign, ast.AugAssign)):
                    ts = n.targets if isinstance(n, ast.Assign) else [n.target]
                    for t in ts:
                        for tt in flat_targets(t):
                            a = self_root(tt)
                            if a: (ctor_fields if name == "__init__" else other_stores).add(a)
                if isinstance(n, ast.Call) and isinstance(n.func, ast.Attribute) and n.func.attr in MUTATORS:
                    a = self_root(n.func.value)
                    if a and name != "__init__": other_stores.add(a)
    constants = ctor_fields - other_stores
    opt = base.get("optimize") if "optimize" not in sub else None
    loop = next((st for st in (opt.body if opt else []) if isinstance(st, ast.While)), None)
    if opt is not None and loop is not None:
        fl.quiet = True
        k = opt.body.index(loop)
        d0 = fl.block(opt.body[:k], set(constants), {}, 0)
        d1 = fl.block(loop.body, set(d0), {}, 0)
        d2 = fl.block(loop.body, set(d1), {}, 0)
        fl.block(opt.body[k + 1:], set(d2), {}, 0)
        fl.quiet = False
    else:
        # no recognisable optimize() in the base class (or the optimizer overrides it): nothing is known to be assigned per run
        fl.stale.add("optimize() not analysable")
        defs = set(constants)
        for hook in ("before_initialization", "_init_population", "after_initialization", "optimization_step"):
            if hook in methods: defs = fl.block(methods[hook].body, set(defs), {}, 0)
    # entropy reached through helpers
    for mname, m in methods.items():
        if mname in base and mname not in sub and mname in ("set_config_parameters",): continue
        for n in ast.walk(m):
            if isinstance(n, ast.Call) and isinstance(n.func, ast.Name) and n.func.id in helper_entropy and helper_entropy[n.func.id]:
                fl.entropy += [f"helpers.{n.func.id}->{x}" for x in helper_entropy[n.func.id]]
    ctor_deref = []
    for ctor in [o["__init__"] for o in (base, sub) if "__init__" in o]:
        for n in ast.walk(ctor):
            if isinstance(n, (ast.Attribute, ast.Subscript)) and isinstance(getattr(n, "ctx", None), ast.Load):
                v = n.value
                if is_self_attr(v, "_config") or (isinstance(v, ast.Name) and v.id == "config"):
                    ctor_deref.append(unparse(n))
    sc = sub.get("set_config_parameters")
    canon = bool(sc and len([s for s in sc.body if not (isinstance(s, ast.Expr) and isinstance(s.value, ast.Constant))]) == 1)
    if canon:
        s0 = [s for s in sc.body if not (isinstance(s, ast.Expr) and isinstance(s.value, ast.Constant))][0]
        canon = (isinstance(s0, ast.Assign) and len(s0.targets) == 1 and unparse(s0.targets[0]) == "self._config" and isinstance(s0.value, ast.Call)
                 and not s0.value.args and len(s0.value.keywords) == 1 and s0.value.keywords[0].arg is None and unparse(s0.value.keywords[0].value) == "parameters"
                 and isinstance(s0.value.func, ast.Name) and s0.value.func.id.endswith("Config"))
    config_cls = unparse(s0.value.func) if canon else ""
    # the direction may flow only into calculate_fitness / Transformer-style fitness computation: still a read of the direction
    return dict(stale=sorted(fl.stale), cfg_writes=sorted(set(fl.cfg_writes)), task_writes=sorted(set(fl.task_writes)), entropy=sorted(set(fl.entropy)),
                ctor_deref=sorted(set(ctor_deref)), canon=canon, config_cls=config_cls, reads_fitness=fl.reads_fitness, reads_direction=fl.reads_direction)


def helper_entropy(repo: Path) -> dict:
    """for each function of helpers.py: the non-numpy entropy sources it (transitively) uses"""
    tree = ast.parse((repo / "pyvolutionary" / "helpers.py").read_text())
    fns = {n.name: n for n in tree.body if isinstance(n, ast.FunctionDef)}
    direct = {}
    for name, fn in fns.items():
        srcs = []
        for n in ast.walk(fn):
            if isinstance(n, ast.Call):
                s = unparse(n.func)
                if s.startswith("random.") or s in ("time.time", "os.urandom", "uuid.uuid4", "id", "hash") or "default_rng" in s or "RandomState" in s:
                    srcs.append(s)
        direct[name] = srcs
    changed = True
    while changed:
        changed = False
        for name, fn in fns.items():
            for n in ast.walk(fn):
                if isinstance(n, ast.Call) and isinstance(n.func, ast.Name) and n.func.id in fns:
                    for s in direct[n.func.id]:
                        if s not in direct[name]: direct[name].append(s); changed = True
    return direct


INPLACE_FUNCS = {"np.random.shuffle": 0, "random.shuffle": 0, "np.put": 0, "np.place": 0, "np.copyto": 0, "np.fill_diagonal": 0, "np.putmask": 0,
                 "heapq.heapify": 0, "heapq.heappush": 0, "heapq.heappop": 0, "np.clip": None, "np.sort": None}     # None: only via out=


def param_mutations(repo: Path) -> dict:
    """for every module-level function of helpers.py (the functions optimizers call with their own objects): the positions of the parameters the function
    (transitively) mutates in place - a mutating method call, an element / slice store or delete, an augmented assignment, an in-place numpy / heapq function,
    directly or through a local name bound to the parameter"""
    tree = ast.parse((repo / "pyvolutionary" / "helpers.py").read_text())
    fns = {n.name: n for n in tree.body if isinstance(n, ast.FunctionDef)}
    params = {name: [a.arg for a in fn.args.posonlyargs + fn.args.args] for name, fn in fns.items()}
    mut = {name: set() for name in fns}

    def roots(fn, pnames):
        """local name -> parameter it is (a sub-object of), flow-insensitively"""
        al = {p: p for p in pnames}
        for _ in range(3):
            for n in ast.walk(fn):
                if isinstance(n, ast.Assign) and isinstance(n.value, (ast.Name, ast.Attribute, ast.Subscript)):
                    b = n.value
                    while isinstance(b, (ast.Attribute, ast.Subscript)): b = b.value
                    if isinstance(b, ast.Name) and b.id in al:
                        for t in n.targets:
                            if isinstance(t, ast.Name) and t.id not in pnames: al[t.id] = al[b.id]
                # functions that may hand back THE SAME array (no copy when the argument already is an array of the requested type) or a view of it
                if isinstance(n, ast.Assign) and isinstance(n.value, ast.Call):
                    c = n.value; fsrc = unparse(c.func)
                    src_arg = None
                    if fsrc in VIEW_FUNCS and c.args: src_arg = c.args[0]
                    elif isinstance(c.func, ast.Attribute) and c.func.attr in VIEW_METHODS: src_arg = c.func.value
                    if src_arg is not None:
                        b = src_arg
                        while isinstance(b, (ast.Attribute, ast.Subscript)): b = b.value
                        if isinstance(b, ast.Name) and b.id in al:
                            for t in n.targets:
                                if isinstance(t, ast.Name) and t.id not in pnames: al[t.id] = al[b.id]
        return al

    def base_name(e):
        while isinstance(e, (ast.Attribute, ast.Subscript)): e = e.value
        return e.id if isinstance(e, ast.Name) else None

    changed = True
    while changed:
        changed = False
        for name, fn in fns.items():
            al = roots(fn, params[name])
            hit = set()
            for n in ast.walk(fn):
                if isinstance(n, ast.Call):
                    f = n.func
                    if isinstance(f, ast.Attribute) and f.attr in MUTATORS and base_name(f.value) in al: hit.add(al[base_name(f.value)])
                    src = unparse(f)
                    if src in INPLACE_FUNCS and INPLACE_FUNCS[src] is not None and len(n.args) > INPLACE_FUNCS[src] and base_name(n.args[INPLACE_FUNCS[src]]) in al:
                        hit.add(al[base_name(n.args[INPLACE_FUNCS[src]])])
                    for k in n.keywords:
                        if k.arg == "out" and base_name(k.value) in al: hit.add(al[base_name(k.value)])
                    if isinstance(f, ast.Name) and f.id in fns:
                        for i, a in enumerate(n.args):
                            if i < len(params[f.id]) and params[f.id][i] in mut[f.id] and base_name(a) in al: hit.add(al[base_name(a)])
                        for k in n.keywords:
                            if k.arg in mut[f.id] and base_name(k.value) in al: hit.add(al[base_name(k.value)])
                elif isinstance(n, (ast.Assign, ast.AugAssign, ast.Delete)):
                    ts = n.targets if isinstance(n, (ast.Assign, ast.Delete)) else [n.target]
                    for t in ts:
                        for tt in flat_targets(t):
                            if isinstance(tt, (ast.Subscript, ast.Attribute)) and base_name(tt) in al: hit.add(al[base_name(tt)])
                            if isinstance(n, ast.AugAssign) and isinstance(tt, ast.Name) and tt.id in al: hit.add(al[tt.id])
            if not hit <= mut[name]:
                mut[name] |= hit; changed = True
    return {name: sorted(params[name].index(p) for p in ps if p in params[name]) for name, ps in mut.items()}, params


VIEW_FUNCS = {"np.asarray", "np.asanyarray", "np.ascontiguousarray", "np.asfarray", "np.atleast_1d", "np.atleast_2d", "np.ravel", "np.reshape", "np.squeeze", "np.transpose",
              "np.swapaxes", "np.expand_dims", "np.real", "numpy.asarray", "memoryview"}
VIEW_METHODS = {"view", "reshape", "ravel", "squeeze", "transpose", "swapaxes"}
HELPER_MUT: dict = {}
HELPER_PARAMS: dict = {}


# ----------------------------------------------------------------------------------------------- assembly
def fingerprint(cls: ast.ClassDef) -> str:
    """normalised text of every population-affecting statement (for hand size models of irregular optimizers)"""
    lines = []
    for n in ast.walk(cls):
        if isinstance(n, ast.stmt) and not isinstance(n, (ast.FunctionDef, ast.ClassDef, ast.If, ast.For, ast.While, ast.With, ast.Try)):
            t = unparse(n)
            if "_population" in t or "population_size" in t or "_generate_agents" in t or "_generate_group_population" in t:
                lines.append(" ".join(t.split()))
    return hashlib.sha1("\n".join(lines).encode()).hexdigest()[:16]


def src_fingerprint(pkg: Path) -> str:
    """hash of the abstract syntax of every module of the optimizer's package (docstrings and comments do not count)"""
    h = hashlib.sha1()
    for f in sorted(pkg.glob("*.py")):
        tree = ast.parse(f.read_text())
        for n in ast.walk(tree):
            if isinstance(n, (ast.FunctionDef, ast.ClassDef, ast.Module)) and n.body and isinstance(n.body[0], ast.Expr) \
                    and isinstance(n.body[0].value, ast.Constant) and isinstance(n.body[0].value.value, str):
                n.body = n.body[1:] or [ast.Pass()]
        h.update(f.name.encode()); h.update(ast.dump(tree).encode())
    return h.hexdigest()[:16]


def analyse(repo: Path) -> tuple[list[dict], list[str]]:
    found, missing = discover(repo)
    he = helper_entropy(repo)
    hm, hp = param_mutations(repo)
    HELPER_MUT.clear(); HELPER_MUT.update({k: v for k, v in hm.items() if v}); HELPER_PARAMS.clear(); HELPER_PARAMS.update(hp)
    base = ast.parse((repo / "pyvolutionary" / "abstract.py").read_text())
    BASE_METHODS.clear()
    base_cls = None
    for c in base.body:
        if isinstance(c, ast.ClassDef) and c.name == "OptimizationAbstract":
            base_cls = c
            BASE_METHODS.update(m.name for m in c.body if isinstance(m, ast.FunctionDef))
            BASE_METHODS.update({"name", "configuration"})
    out = []
    for name, cls, tree, pkg, path in found:
        methods = {m.name: m for m in cls.body if isinstance(m, ast.FunctionDef)}
        gk = greedy_kind(cls)
        prov = provenance(pkg, cls, None)
        sk = {"name": name, "package": pkg.name, "greedy": gk, **prov,
              "step": popwrites_of(methods, "optimization_step", gk),
              "programs": wmap_programs(methods, "optimization_step", gk),
              "after_init": popwrites_of(methods, "after_initialization", gk),
              "before_init": popwrites_of(methods, "before_initialization", gk),
              "init_pop_overridden": "_init_population" in methods,
              "fields": fields(cls, he, base_cls), "fingerprint": fingerprint(cls), "src_fingerprint": src_fingerprint(pkg)}
        # a subclass of another optimizer inherits its methods: analyse through the parent as well (fail closed: mark irregular)
        sk["inherits_optimizer"] = [unparse(b) for b in cls.bases if unparse(b) not in ("OptimizationAbstract",) and not unparse(b).startswith("OptimizationAbstract[")]
        out.append(sk)
    return out, missing


if __name__ == "__main__":
    import json, sys
    sks, missing = analyse(Path(sys.argv[1] if len(sys.argv) > 1 else "/repo"))
    print("missing:", missing)
    elit_n = 0
    for s in sks:
        step = s["step"]
        elitist = bool(step) and all((k == "WMap" and f) or k in ("WExtendTrim", "WGreedyPop", "WSortSelf") or (k == "WSetItem" and f) for k, f, _ in step)
        elit_n += elitist
        flags = []
        if s["raw_sites"]: flags.append(("raw", s["raw_sites"]))
        if s["core_writes"]: flags.append(("core", s["core_writes"]))
        if s["objective_calls"]: flags.append(("obj", s["objective_calls"]))
        if s["reflect"]: flags.append(("reflect", s["reflect"]))
        if not s["init_agent_ok"]: flags.append(("init_agent", False))
        f = s["fields"]
        for k in ("stale", "cfg_writes", "task_writes", "entropy", "ctor_deref"):
            if f[k]: flags.append((k, f[k]))
        if not f["canon"]: flags.append(("canon", False))
        print(f"{s['name']:48s} {s['greedy']:8s} elitist={elitist!s:5s} fit={f['reads_fitness']!s:5s} dir={f['reads_direction']!s:5s} "
              f"step={[(k, fl) for k, fl, _ in step]} ai={[(k, fl) for k, fl, _ in s['after_init']]} {'INITPOP' if s['init_pop_overridden'] else ''}")
        for fl in flags: print("      ", fl)
    print("elitist:", elit_n, "of", len(sks))


# ----------------------------------------------------------------------------------------------- emission
def coq_str(s: str) -> str:
    return '"' + s.replace('"', "'").replace("\n", " ")[:120] + '"'


def pw_lit(k, flag) -> str:
    if k == "WMap": return f"WMap {'true' if flag else 'false'}"
    if k == "WSetItem": return f"WSetItem {'true' if flag else 'false'}"
    return k


def is_elitist(sk) -> bool:
    step = sk["step"]
    return bool(step) and sk["greedy"] != "GOther" and all((k == "WMap" and f) or k in ("WExtendTrim", "WGreedyPop", "WSortSelf") or (k == "WSetItem" and f) for k, f, _ in step)


def is_size_regular(sk) -> bool:
    ok = lambda ws: all(k in ("WMap", "WZipMap", "WExtendTrim", "WGreedyPop", "WSortSelf", "WSetItem") for k, _, _ in ws)
    return not sk["init_pop_overridden"] and ok(sk["step"]) and ok(sk["after_init"]) and ok(sk["before_init"])


def conforms_prov(sk) -> bool:
    return not sk["raw_sites"] and not sk["core_writes"] and not sk["objective_calls"] and not sk["reflect"] and sk["init_agent_ok"]


def emit_algos(sks: list[dict], missing: list[str]) -> str:
    out = ["(* GENERATED from /repo/pyvolutionary/*/ by pv/talgo.py on every run — do not edit. *)",
           "From Coq Require Import String List.", "From PV Require Import Skeleton.", "Import ListNotations.", "Open Scope string_scope.", ""]
    names = []
    for sk in sks:
        f = sk["fields"]
        ident = "sk_" + sk["name"]
        names.append(ident)
        ls = lambda xs: "[" + "; ".join(coq_str(x) for x in xs) + "]"
        pws = lambda ws: "[" + "; ".join(pw_lit(k, fl) for k, fl, _ in ws) + "]"
        out.append(f"Definition {ident} : skeleton := {{|\n"
                   f"  sk_name := {coq_str(sk['name'])};\n"
                   f"  sk_step := {pws(sk['step'])}; sk_after_init := {pws(sk['after_init'])}; sk_before_init := {pws(sk['before_init'])};\n"
                   f"  sk_init_pop_overridden := {'true' if sk['init_pop_overridden'] else 'false'};\n"
                   f"  sk_raw_sites := {len(sk['raw_sites'])}; sk_core_writes := {len(sk['core_writes'])}; sk_objective_calls := {len(sk['objective_calls'])};\n"
                   f"  sk_reflection := {len(sk['reflect'])}; sk_init_agent_ok := {'true' if sk['init_agent_ok'] else 'false'}; sk_greedy := {sk['greedy']};\n"
                   f"  sk_config_writes := {ls(f['cfg_writes'])}; sk_task_writes := {ls(f['task_writes'])};\n"
                   f"  sk_stale := {ls(f['stale'])}; sk_entropy := {ls(f['entropy'])};\n"
                   f"  sk_reads_fitness := {'true' if f['reads_fitness'] else 'false'}; sk_reads_direction := {'true' if f['reads_direction'] else 'false'};\n"
                   f"  sk_ctor_deref := {ls(f['ctor_deref'])}; sk_set_config_canonical := {'true' if f['canon'] else 'false'};\n"
                   f"  sk_fingerprint := {coq_str(sk['fingerprint'])} |}}.\n")
    out.append("Definition all_skeletons : list skeleton :=\n  [" + ";\n   ".join(names) + "].\n")
    out.append("(* exported optimizer classes for which no class definition was found (fail closed) *)")
    out.append("Definition missing_skeletons : list string := [" + "; ".join(coq_str(m) for m in missing) + "].\n")
    return "\n".join(out)


def emit_progs(sks: list[dict]) -> str:
    """gen/ElitProgs.v: the element program of every WMap write of every optimizer's optimization_step, with T-algo's own flag beside it"""
    out = ["(* GENERATED from /repo/pyvolutionary/*/ by pv/talgo.py + pv/elitprog.py on every run - do not edit. *)",
           "From Coq Require Import String List ZArith.", "From PV Require Import ElitLang.", "Import ListNotations.", "Open Scope string_scope.", "Open Scope nat_scope.", ""]
    rows = []
    for sk in sks:
        items = []
        for flag, prog in sk.get("programs", []):
            items.append(f"({'true' if flag else 'false'}, {('Some ' + prog) if prog is not None else 'None'})")
        rows.append(f"  ({coq_str(sk['name'])}, [" + ";\n     ".join(items) + "])")
    out.append("Definition elit_programs : list (string * list (bool * option exp)) := [\n" + ";\n".join(rows) + "\n].")
    return "\n".join(out) + "\n"
