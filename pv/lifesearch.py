"""Dynamic side of C07 / C08 / C09 / C12 / C18: pairs of real runs compared field by field."""
from __future__ import annotations
import json
import math

from . import search
from .lit import xkey


def same_pos(p, q):
    """position equality with NaN == NaN (coordinates may be numbers or lists of numbers)"""
    if isinstance(p, (list, tuple)) or isinstance(q, (list, tuple)):
        return isinstance(p, (list, tuple)) and isinstance(q, (list, tuple)) and len(p) == len(q) and all(same_pos(u, v) for u, v in zip(p, q))
    return xkey(p) == xkey(q)


def same_result(a, b, negate_costs=False, ignore_fitness=False):
    """None if the two observations hold identical results, else a description of the first difference"""
    if a["ok"] != b["ok"]:
        return f"one run completed, the other raised ({a.get('error')}, {b.get('error')})"
    if not a["ok"]:
        return None if a["error"]["type"] == b["error"]["type"] else f"different errors {a['error']['type']} / {b['error']['type']}"
    if len(a["evolution"]) != len(b["evolution"]):
        return f"{len(a['evolution'])} vs {len(b['evolution'])} generations"
    for g, (pa, pb) in enumerate(zip(a["evolution"], b["evolution"])):
        if len(pa) != len(pb): return f"generation {g}: {len(pa)} vs {len(pb)} agents"
        for i, (x, y) in enumerate(zip(pa, pb)):
            if x[0] != y[0] and not same_pos(x[0], y[0]): return f"generation {g}, agent {i}: positions {x[0]!r} vs {y[0]!r}"
            cy = -y[1] if negate_costs else y[1]
            if xkey(x[1]) != xkey(cy): return f"generation {g}, agent {i}: costs {x[1]!r} vs {y[1]!r}"
            if not ignore_fitness and x[2] != y[2] and not (math.isnan(x[2]) and math.isnan(y[2])): return f"generation {g}, agent {i}: fitness {x[2]!r} vs {y[2]!r}"
    if not ignore_fitness and [xkey(r) for r in a["rates"]] != [xkey(r) for r in b["rates"]]:
        return f"rates differ: {a['rates'][:3]} vs {b['rates'][:3]}"
    return None


# ------------------------------------------------------------------------------------------------ C07
def c07_jobs(ctx, focus=()):
    r = ctx.rng
    jobs = []
    for nm in search.all_names():
        for rep in range((1 if ctx.quick else 10) * ctx.boost + (24 if nm in focus else 0)):
            seed = r.choice([42, 0, 1, 7, 123456, 2**31 - 1, r.randint(0, 10**6)])
            objs = ["sphere", "rastrigin", "step", "const"] if nm not in focus else ["step", "step", "step", "terraces", "terraces", "const", "sphere", "zero", "deadzone", "violation"]    # plateaus: the whole population ties, then moves on
            t = search.cont_task(obj=r.choice(objs), minmax=r.choice(["min", "max"]), seed=seed, dim=r.choice([2, 3]), **({"lo": -5.12, "hi": 5.12} if nm in focus and r.random() < 0.8 else {}))
            cfg = {"max_cycles": r.choice([2, 4] if nm not in focus else [12, 40]), "fitness_error": None}
            if nm in focus and r.random() < 0.5: cfg["population_size"] = max(4, search.fixture_scale(nm)["population_size"] // 2)
            jobs.append(({"opt": nm, "cfg": cfg, "task": t}, {"opt": nm, "cfg": cfg, "task": t, "pre_draws": r.randint(1, 50)}))
    # the same seeded call twice on ONE instance reproduces itself (buffers kept across runs must not replace the seeded draws)
    for nm in (search.all_names() if not ctx.quick else r.sample(search.all_names(), 30) + [n for n in focus]):
        t = search.cont_task(obj=r.choice(["sphere", "rastrigin"]), seed=r.choice([0, 42, 7]), dim=3)
        cfg = {"max_cycles": 4, "fitness_error": None}
        jobs.append(({"opt": nm, "cfg": cfg, "task": t}, {"opt": nm, "cfg": cfg, "task": t, "sequence": [{"task": t}]}))
    # the k-th run in an interpreter is the first run: other instances of the class (one parameter / the population size slightly different), other tasks of the
    # same class used earlier in the same process and kept alive (class- or module-level state, memoised methods)
    from . import validators
    for nm in (search.all_names() if not ctx.quick else r.sample(search.all_names(), min(84, 16 * ctx.boost)) + [n for n in focus]):
        P0 = search.fixture_scale(nm)["population_size"]
        t = search.cont_task(obj=r.choice(["sphere", "rastrigin"]), seed=r.choice([0, 42, 7]), dim=3)
        cfg = {"max_cycles": 3, "fitness_error": None}
        ec1 = [c for c in validators.edge_configs(nm, sizes=(P0,)) if len(c) > 1]
        pre = [{"opt": nm, "cfg": {"fitness_error": None, **c, "max_cycles": 2}, "task": search.cont_task(obj="sphere", seed=r.randint(0, 99), dim=3)} for c in r.sample(ec1, min(len(ec1), 2))]
        pre.append({"opt": nm, "cfg": {"fitness_error": None, "max_cycles": 2, "population_size": P0 + r.choice([-3, -2, -1, 1, 2, 3])},
                    "task": search.cont_task(obj="sphere", lo=5.0, hi=9.0, seed=r.randint(0, 99), dim=r.choice([2, 3, 4]))})
        r.shuffle(pre)
        jobs.append(({"opt": nm, "cfg": cfg, "task": t}, {"opt": nm, "cfg": cfg, "task": t, "pre_jobs": pre}))
        # ... and a call that was ABORTED part-way (the objective raised) or REFUSED (bad arguments) on this very instance, then the same seeded call
        ab = dict(search.cont_task(obj="sphere", seed=r.randint(0, 99), dim=3), raise_at=P0 + r.randint(2, 2 * P0))
        jobs.append(({"opt": nm, "cfg": cfg, "task": t}, {"opt": nm, "cfg": cfg, "task": t, "sequence": [{"task": ab}]}))
    # equal tasks are equal tasks: a task OBJECT that was sampled from / optimised on before (state kept on a variable or on the task would escape the seed) against a
    # freshly built equal one - for every encoding, on optimizer x encoding pairs known to run (expectations.json: c06_int_works) and on continuous tasks
    from . import census
    from .expected import load_expectations
    works = sorted(load_expectations().get("c06_int_works", []))
    wpairs = [w.split("|") for w in works]
    wpairs = [w for w in wpairs if w[1] in census.INT_ENCODINGS]
    per_enc = {}
    for nm, enc in wpairs: per_enc.setdefault(enc, []).append(nm)
    for enc in sorted(per_enc):
        cand = per_enc[enc]
        for nm in r.sample(cand, min(len(cand), (4 if ctx.quick else 25) * ctx.boost)):
            t = {"vars": census.INT_ENCODINGS[enc](), "obj": r.choice(["sphere", "linear", "abs"]), "minmax": r.choice(["min", "max"]), "seed": r.choice([0, 42, 7])}
            cfg = {"max_cycles": 3, "fitness_error": None}
            jobs.append(({"opt": nm, "cfg": cfg, "task": t}, {"opt": nm, "cfg": cfg, "task": t, "used_task": {"draws": r.randint(1, 5), "runs": r.choice([0, 1])}}))
    for nm in r.sample(search.all_names(), 6 if ctx.quick else 40):
        t = search.cont_task(obj="sphere", seed=r.choice([0, 42, 7]), dim=3)
        cfg = {"max_cycles": 3, "fitness_error": None}
        jobs.append(({"opt": nm, "cfg": cfg, "task": t}, {"opt": nm, "cfg": cfg, "task": t, "used_task": {"draws": r.randint(1, 5), "runs": 1}}))
    # "in the same or in different processes": two FRESH interpreters with different string-hash seeds (hash-ordered iteration over labels, dict / set order ...),
    # on tasks whose objective works on the decoded solution (string-labelled permutation, as in the library's TSP example) and on ordinary ones
    names = search.all_names()
    pick = [n for n in ("VirusColonySearchOptimization", "ParticleSwarmOptimization", "GreyWolfOptimization") if n in names] + r.sample(names, 3 if ctx.quick else 20)
    for nm in pick:
        tasks = [{"vars": [("permstr", 7)], "obj": "decoded-tour", "minmax": "min", "seed": r.choice([0, 42, 7])},
                 {"vars": [("permcase", 6)], "obj": "decoded-tour", "minmax": "min", "seed": r.choice([0, 42, 7])},      # labels that differ only by case (a1 / A1 ...)
                 search.cont_task(obj="sphere", seed=r.choice([0, 42, 7]))]
        for t in tasks:
            cfg = {"max_cycles": 3, "fitness_error": None}
            jobs.append(({"opt": nm, "cfg": cfg, "task": t, "hashseed": 1, "decode": True}, {"opt": nm, "cfg": cfg, "task": t, "hashseed": 2, "decode": True}))
    return jobs


def c07_decide(ctx, pairs, obs):
    n = 0
    for (ja, jb), oa, ob in zip(pairs, obs[0::2], obs[1::2]):
        n += 1
        if not oa["ok"] and oa["error"]["type"] == "TypeError" and "seed" in oa["error"]["msg"].lower() + oa["error"]["where"].lower():
            ctx.violation("seed:integer seed rejected", f"{ja['opt']}: a task carrying seed={ja['task']['seed']} raises {oa['error']}", {"kind": "pair", "a": ja, "b": jb})
            continue
        if not (oa["ok"] and ob["ok"]):
            continue                      # crashes are C06's business
        d = same_result(oa, ob)
        if not d and oa.get("decoded_best") != ob.get("decoded_best"):
            d = f"the decoded best solution differs: {oa.get('decoded_best')} vs {ob.get('decoded_best')}"
        if d:
            how = " (two interpreters, PYTHONHASHSEED 1 and 2)" if "hashseed" in ja else ""
            ctx.violation(f"seeded-runs-differ:{ja['opt']}", f"{ja['opt']}: two runs with seed {ja['task']['seed']} differ{how}: {d}", {"kind": "pair", "a": ja, "b": jb})
    return n


# ------------------------------------------------------------------------------------------------ C08
def c08_jobs(ctx, focus=()):
    from pyvolutionary import EarlyStopping  # noqa: F401
    r = ctx.rng
    jobs = []
    # optimizers whose source changed: long low-dimensional runs (state that only matters once the swarm has converged), degenerate landscapes, several earlier runs
    for nm in focus:
        for _ in range(8):
            dim = r.choice([1, 1, 2, 3])
            last = search.cont_task(obj=r.choice(["sphere", "sphere", "deadzone", "step", "shifted"]), seed=r.randint(0, 10**6), dim=dim, lo=r.choice([-5.0, 0.0, -1e-6]), hi=r.choice([5.0, 1e-6 if dim else 5.0]))
            if last["vars"][0][1][0][0] >= last["vars"][0][1][1][0]: last = search.cont_task(obj="sphere", seed=r.randint(0, 10**6), dim=dim, lo=-4.5e-7, hi=4.5e-7)
            cfg = {"max_cycles": r.choice([10, 60, 200]), "fitness_error": None}
            prev = [{"task": dict(last)} for _ in range(r.choice([1, 2]))]
            jobs.append(({"opt": nm, "cfg": cfg, "task": last, "sequence": prev}, {"opt": nm, "cfg": cfg, "task": last}))
        # ... and earlier runs that END EARLY, anywhere inside the budget (a generous fitness_error on an easy task, early stopping): schedules consumed part-way
        for _ in range(16):
            easy = search.cont_task(obj="sphere", seed=r.randint(0, 10**6), dim=2, lo=-1.0, hi=1.0)
            last = search.cont_task(obj=r.choice(["rastrigin", "sphere"]), seed=r.randint(0, 10**6), dim=3)
            cfg = {"max_cycles": r.choice([12, 20, 30, 50]), "fitness_error": r.choice([0.3, 0.1, 0.03, 0.01, 0.003, 0.001]),
                   "early_stopping": r.choice([None, None, {"patience": 2, "min_delta": 0.05}])}
            jobs.append(({"opt": nm, "cfg": cfg, "task": last, "sequence": [{"task": easy}]}, {"opt": nm, "cfg": cfg, "task": last}))
    for nm in search.all_names():
        for _ in range((1 if ctx.quick else 10) * ctx.boost):
            n_prev = r.choice([1, 1, 2])
            last = search.cont_task(obj=r.choice(["sphere", "step", "shifted"]), seed=r.randint(0, 10**6), dim=r.choice([2, 3]), lo=-100.0, hi=100.0)
            prev = []
            for _k in range(n_prev):
                if r.random() < 0.5: pt = dict(last)
                else: pt = search.cont_task(obj=r.choice(["sphere", "rastrigin", "linear"]), seed=r.randint(0, 10**6), dim=r.choice([2, 5, 10]), lo=-100.0, hi=100.0)
                prev.append({"task": pt})
            es = r.choice([None, None, {"patience": r.choice([1, 3]), "min_delta": r.choice([0.01, 0.5, float("inf")])}])
            cfg = {"max_cycles": r.choice([3, 8, 20]), "fitness_error": r.choice([None, None, 0.3]), "early_stopping": es}
            jobs.append(({"opt": nm, "cfg": cfg, "task": last, "sequence": prev}, {"opt": nm, "cfg": cfg, "task": last}))
        # the earlier call did not complete: aborted by the objective part-way through a cycle, or refused for its arguments (unknown mode, non-positive workers);
        # the next - valid - call, in a pooled mode without a worker count, behaves like a fresh instance's
        if not ctx.quick or r.random() < 0.6 * ctx.boost:
            P0 = search.fixture_scale(nm)["population_size"]
            last = search.cont_task(obj="sphere", seed=r.randint(0, 10**6), dim=3)
            cfg = {"max_cycles": 3, "fitness_error": None}
            kind = r.choice(["abort", "abort", "workers", "mode"])
            if kind == "abort": prev = [{"task": dict(search.cont_task(obj="step", seed=r.randint(0, 99), dim=3), raise_at=P0 + r.randint(2, 3 * P0))}]
            elif kind == "workers": prev = [{"task": dict(last), "kw": {"workers": r.choice([0, -2]), "mode": r.choice(["thread", "serial"])}}]
            else: prev = [{"task": dict(last), "kw": {"mode": "bogus", "workers": 3}}]
            ja = {"opt": nm, "cfg": cfg, "task": last, "sequence": prev}; jb = {"opt": nm, "cfg": cfg, "task": last}
            if kind != "abort" and r.random() < 0.7: ja["mode"] = jb["mode"] = "thread"
            jobs.append((ja, jb))
    return jobs


def c08_decide(ctx, pairs, obs):
    n = 0
    for (ja, jb), oa, ob in zip(pairs, obs[0::2], obs[1::2]):
        n += 1
        if ob["ok"] and not oa["ok"] and ja.get("mode") == "thread" and oa["error"]["where"].startswith(("abstract.py", "helpers.py:get_pool")):
            ctx.violation(f"reused-instance-fails:{ja['opt']}", f"{ja['opt']}: a valid call after a refused / aborted one on the same instance raises {oa['error']}", {"kind": "pair", "a": ja, "b": jb}); continue
        if not (oa["ok"] and ob["ok"]): continue
        d = None if ja.get("mode") == "thread" else same_result(oa, ob)            # pooled runs are not comparable run to run (C11): only completion is
        if d:
            ctx.violation(f"reused-instance-differs:{ja['opt']}", f"{ja['opt']}: optimize() on an instance used {len(ja['sequence'])} time(s) before differs from a fresh instance: {d}",
                          {"kind": "pair", "a": ja, "b": jb})
    return n


# ------------------------------------------------------------------------------------------------ C09
def c09_jobs(ctx, focus=()):
    r = ctx.rng
    jobs = []
    # optimizers whose source changed: every parameter at the edge of its validator (documented population and a small one), longer runs, degenerate landscapes -
    # a write to the caller's objects that happens only when a group collapses / a schedule reaches zero / everybody ties
    from . import validators
    for nm in focus:
        P0 = search.fixture_scale(nm)["population_size"]
        ecs = validators.edge_configs(nm, sizes=(P0,)) + validators.edge_configs(nm, sizes=(max(3, P0 // 2),))
        for c in r.sample(ecs, min(len(ecs), 30)):
            jobs.append({"opt": nm, "cfg": {**c, "max_cycles": r.choice([10, 30]), "fitness_error": None},
                         "task": search.cont_task(obj=r.choice(["sphere", "rastrigin", "deadzone", "const"]), seed=r.randint(0, 10**6), minmax=r.choice(["min", "max"]), dim=r.choice([2, 3]))})
        for _ in range(6):
            jobs.append({"opt": nm, "cfg": {"max_cycles": r.choice([60, 150]), "fitness_error": None},
                         "task": search.cont_task(obj=r.choice(["sphere", "deadzone", "step", "zero"]), seed=r.randint(0, 10**6), minmax=r.choice(["min", "max"]), dim=r.choice([1, 2, 3]))})
    for nm in search.all_names():
        for _ in range((1 if ctx.quick else 10) * ctx.boost):
            mode = r.choice([None, None, None, "thread", "process"]) if not ctx.quick else r.choice([None, None, None, None, "thread"])
            t = search.cont_task(obj="sphere", seed=r.randint(0, 10**6), minmax=r.choice(["min", "max"]))
            if r.random() < 0.15:
                t = {"vars": [("multiobj", ([-4.0, -4.0], [4.0, 4.0]))], "obj": "multi2", "minmax": "min", "weights": [0.5, 0.5], "seed": 3}
            j = {"opt": nm, "cfg": {"max_cycles": r.choice([1, 3]), "fitness_error": None}, "task": t}
            if mode: j["mode"] = mode; j["workers"] = 2
            jobs.append(j)
        # calls that RAISE leave the caller's objects alone too: a seed numpy refuses (negative, >= 2**32), an unknown mode, an objective failing part-way
        if not ctx.quick or r.random() < 0.5 * ctx.boost:
            bad = r.choice([{"seed": -1}, {"seed": 2**32}, {"seed": 2**40 + 5}, {"seed": -7, "mode": "bogus"}, {"raise_at": 3}])
            t = search.cont_task(obj="sphere", seed=bad.get("seed", r.randint(0, 99)), minmax=r.choice(["min", "max"]))
            if bad.get("raise_at"): t["raise_at"] = search.fixture_scale(nm)["population_size"] + 2
            j = {"opt": nm, "cfg": {"max_cycles": 2, "fitness_error": None}, "task": t}
            if bad.get("mode"): j["mode"] = bad["mode"]
            jobs.append(j)
        # an objective that hands task-owned data (rows of a float64 array) to the library's own distance helper, as the README's TSP example does
        if not ctx.quick or r.random() < 0.25 * ctx.boost:
            jobs.append({"opt": nm, "cfg": {"max_cycles": 2, "fitness_error": None}, "task": dict(search.cont_task(obj="helperdist", seed=r.randint(0, 10**6), dim=3), coords=4)})
        # integer-coded tasks made of ONE multi-variable (the search-space description must not be shared with, and edited by, the run)
        for vs in ([("binary", 4)], [("discmulti", [3, 4, 2])]) if (not ctx.quick or r.random() < 0.5) else ([r.choice([("binary", 4), ("perm", 5)])],):
            jobs.append({"opt": nm, "cfg": {"max_cycles": 3, "fitness_error": None}, "task": {"vars": list(vs), "obj": "abs", "minmax": "min", "seed": r.randint(0, 10**6)}})
        # several variables, a multi-variable first (its own bound lists must not be extended / edited by flattening them)
        if not ctx.quick or r.random() < 0.5:
            jobs.append({"opt": nm, "cfg": {"max_cycles": 2, "fitness_error": None}, "task": {"vars": [("contmulti", ([-2.0, -1.0, 0.0], [2.0, 1.0, 3.0])), ("cont", (5.0, 6.0)), ("contmulti", ([0.0], [1.0]))],
                                                                                  "obj": "sphere", "minmax": r.choice(["min", "max"]), "seed": r.randint(0, 10**6)}})
        # list-valued parameters written the other way round (valid unless a validator says otherwise): in-place sorting / editing shows
        lists = {k: list(reversed(v)) for k, v in search.fixture_scale(nm).items() if isinstance(v, list) and len(v) > 1 and v != list(reversed(v))}
        # one field at a time (a validator may reject one reversal and accept another), then all accepted ones together would add nothing
        for k, v in sorted(lists.items()):
            for mode in (None, "thread"):
                j = {"opt": nm, "cfg": {"max_cycles": 2, "fitness_error": None, k: v}, "task": search.cont_task(obj="sphere", seed=r.randint(0, 10**6))}
                if mode: j["mode"] = mode; j["workers"] = 2
                jobs.append(j)
    return jobs


def c09_decide(ctx, obs):
    n = 0
    for o in obs:
        n += 1
        j = o["job"]
        if "config_before" in o and "config_after" in o and json.dumps(o["config_before"], sort_keys=True, default=str) != json.dumps(o["config_after"], sort_keys=True, default=str):
            diff = {k: (v, o["config_after"].get(k)) for k, v in o["config_before"].items() if o["config_after"].get(k) != v}
            ctx.violation(f"config-modified:{j['opt']}", f"{j['opt']}: optimize() changed the caller's configuration: {diff}", {"kind": "job", "job": j})
        if "task_before" in o and "task_after" in o and json.dumps(o["task_before"], sort_keys=True, default=str) != json.dumps(o["task_after"], sort_keys=True, default=str):
            what = [k for k in o["task_before"] if o["task_before"][k] != o["task_after"].get(k)]
            ctx.violation(f"task-modified:{j['opt']}", f"{j['opt']}: optimize() changed the caller's task ({', '.join(what)}: {str(o['task_before'].get(what[0]))[:120]} -> "
                          f"{str(o['task_after'].get(what[0]))[:120]})" if what else f"{j['opt']}: optimize() changed the caller's task", {"kind": "job", "job": j})
    return n


# ------------------------------------------------------------------------------------------------ C12
def c12_jobs(ctx, names, focus=()):
    r = ctx.rng
    jobs = []
    for nm in names:
        for _ in range((1 if ctx.quick else 10) * ctx.boost + (12 if nm in focus else 0)):
            obj = r.choice(["sphere", "rastrigin", "step", "shifted", "linear", "lognan"] + (["deadzone", "violation", "violation", "violation", "terraces", "neg:violation"] if nm in focus else []))
            seed = r.randint(0, 10**6); dim = r.choice([2, 3]); lo, hi = r.choice([(-10.0, 10.0), (0.0, 5.0), (-3.0, 1.0)])
            if obj == "lognan": lo, hi = -10.0, 10.0
            cfg = {"max_cycles": r.choice([2, 4] if nm not in focus else [4, 10, 30]), "fitness_error": None, "early_stopping": None}
            jobs.append(({"opt": nm, "cfg": cfg, "task": search.cont_task(obj=obj, minmax="max", seed=seed, dim=dim, lo=lo, hi=hi)},
                         {"opt": nm, "cfg": cfg, "task": search.cont_task(obj="neg:" + obj, minmax="min", seed=seed, dim=dim, lo=lo, hi=hi)}))
        # the direction written as the documented string AFTER construction (`task.minmax = "max"`): the task is a maximisation task like any other
        if not ctx.quick or nm in focus or r.random() < 0.4:
            seed = r.randint(0, 10**6)
            cfg = {"max_cycles": 3, "fitness_error": None, "early_stopping": None}
            jobs.append(({"opt": nm, "cfg": cfg, "task": search.cont_task(obj="shifted", minmax="max", seed=seed, raw_minmax=True)},
                         {"opt": nm, "cfg": cfg, "task": search.cont_task(obj="neg:shifted", minmax="min", seed=seed, raw_minmax=r.choice([True, False]))}))
        # the same duality for a weighted multi-objective task (every objective negated, same weights)
        if not ctx.quick or nm in focus or r.random() < 0.5:
            mo = lambda obj_, mm_: {"vars": [("multiobj", ([-4.0, -4.0], [4.0, 4.0]))], "obj": obj_, "minmax": mm_, "weights": [0.3, 0.7], "seed": seed}
            cfg = {"max_cycles": 3, "fitness_error": None, "early_stopping": None}
            jobs.append(({"opt": nm, "cfg": cfg, "task": mo("multi2", "max")}, {"opt": nm, "cfg": cfg, "task": mo("neg:multi2", "min")}))
            # the same with objectives that hand out STORED rows (a score table, a memoised objective): the framework must not edit what the user returned
            jobs.append(({"opt": nm, "cfg": cfg, "task": mo("cached:multi2", "max")}, {"opt": nm, "cfg": cfg, "task": mo("cached:neg:multi2", "min")}))
    return jobs


def c12_decide(ctx, pairs, obs):
    n = 0
    for (ja, jb), oa, ob in zip(pairs, obs[0::2], obs[1::2]):
        n += 1
        if not (oa["ok"] and ob["ok"]): continue
        d = same_result(oa, ob, negate_costs=True, ignore_fitness=True)
        if d:
            ctx.violation(f"duality:{ja['opt']}", f"{ja['opt']}: maximising f and minimising -f (seed {ja['task']['seed']}) diverge: {d}", {"kind": "pair", "a": ja, "b": jb})
    return n


# ------------------------------------------------------------------------------------------------ C18
def c18_api(ctx):
    """construction / configuration API of every exported optimizer, in-process"""
    import pyvolutionary
    from pydantic import ValidationError
    from .optimizers import registry
    from .harness import quiet
    r = ctx.rng
    n = 0
    for e in registry():
        n += 1
        cls = getattr(pyvolutionary, e["name"]); ccls = getattr(pyvolutionary, e["config"])
        meta = {"kind": "api", "optimizer": e["name"]}
        try:
            o = cls()
        except Exception as ex:
            ctx.violation(f"ctor-without-config:{e['name']}", f"{e['name']}() raises {type(ex).__name__}: {ex}", meta); continue
        try:
            with quiet(): o.optimize(search.build_task(search.cont_task()))
            ctx.violation(f"optimize-without-config:{e['name']}", f"{e['name']}().optimize(task) did not raise", meta)
        except ValueError:
            pass
        except Exception as ex:
            ctx.violation(f"optimize-without-config:{e['name']}", f"{e['name']}().optimize(task) raises {type(ex).__name__} instead of ValueError", meta)
        d = dict(e["kwargs"])
        o.set_config_parameters(d)
        want = ccls(**d)
        if o.configuration != want or type(o.configuration) is not ccls:
            ctx.violation(f"set_config:{e['name']}", f"{e['name']}.set_config_parameters(d) gives {o.configuration!r}, {ccls.__name__}(**d) is {want!r}", meta)
        # out-of-range / malformed dictionaries surface as a validation error at that point, exactly when the config class rejects them
        for _ in range(3):
            bad = dict(d)
            k = r.choice(list(bad))
            bad[k] = r.choice(["not a number", None, -1, [], 1e308]) if k not in ("early_stopping",) else "x"
            if r.random() < 0.3: bad.pop(r.choice(list(bad)))
            try: ccls(**bad); rejects = False
            except (ValidationError, ValueError, TypeError): rejects = True
            o2 = cls()
            try: o2.set_config_parameters(bad); raised = False
            except (ValidationError, ValueError, TypeError): raised = True
            if rejects != raised:
                ctx.violation(f"set_config-validation:{e['name']}", f"{e['name']}.set_config_parameters({bad!r}): raised={raised}, config class rejects={rejects}", meta)
    return n


def perturbed(r, kwargs):
    """another plausible configuration: numeric algorithm parameters moved a little (same population size)"""
    out = {}
    for k, v in kwargs.items():
        if k in ("population_size", "max_cycles", "fitness_error", "early_stopping"): continue
        if isinstance(v, bool): continue
        if isinstance(v, int) and v >= 2: out[k] = v + r.choice([-1, 1])
        elif isinstance(v, float) and 0 < v < 1: out[k] = round(min(0.95, max(0.05, v * r.uniform(0.6, 1.4))), 3)
        elif isinstance(v, float): out[k] = v * r.uniform(0.8, 1.2)
    return out


def c18_jobs(ctx, focus=()):
    r = ctx.rng
    jobs = []
    for nm in search.all_names():
        t = search.cont_task(obj=r.choice(["sphere", "rastrigin"]), seed=r.randint(0, 10**6))
        cfg = {"max_cycles": r.choice([2, 3]), "fitness_error": None}
        jobs.append(({"opt": nm, "cfg": cfg, "task": t, "via_set_config": True}, {"opt": nm, "cfg": cfg, "task": t}))
        # a call refused for the missing configuration (made in a pooled mode, with a worker count) leaves nothing behind
        if not ctx.quick or r.random() < 0.5 * ctx.boost:
            jobs.append(({"opt": nm, "cfg": cfg, "task": t, "via_set_config": True, "refused_first": r.choice([{"mode": "thread"}, {"mode": "thread", "workers": 3}, {"mode": "process"}, {}])},
                         {"opt": nm, "cfg": cfg, "task": t}))
        # ONE algorithm parameter changes between the two configurations (same population size): tables derived from the old value must not survive
        from . import validators
        P0 = search.fixture_scale(nm)["population_size"]
        ec1 = [c for c in validators.edge_configs(nm, sizes=(P0,)) if len(c) > 1]
        for c in r.sample(ec1, min(len(ec1), (2 if (ctx.quick and nm not in focus) else len(ec1)) * ctx.boost)):
            t3 = search.cont_task(obj="sphere", seed=r.randint(0, 10**6))
            cfg3 = {"max_cycles": 3, "fitness_error": None}
            jobs.append(({"opt": nm, "cfg": cfg3, "task": t3, "first_cfg": {**c, "max_cycles": 2, "fitness_error": None}, "sequence": [{"task": search.cont_task(obj="rastrigin", seed=r.randint(0, 10**6))}]},
                         {"opt": nm, "cfg": cfg3, "task": t3}))
        # HyperTuner / Multitask style: an instance that already ran under another configuration is reconfigured and run again
        for _ in range((1 if ctx.quick else 10) * ctx.boost):
            first = {**perturbed(r, search.fixture_scale(nm)), "max_cycles": 2, "fitness_error": None}
            t2 = search.cont_task(obj="sphere", seed=r.randint(0, 10**6))
            cfg2 = {"max_cycles": r.choice([3, 5]), "fitness_error": None}
            # the optional stopping options differ between the two configurations, in either direction (present -> absent, absent -> present, other values)
            es = [None, {"patience": 1, "min_delta": float("inf")}, {"patience": 2, "min_delta": 1e-12}]
            first["early_stopping"] = r.choice(es); cfg2["early_stopping"] = r.choice([e for e in es if e != first["early_stopping"]])
            first["fitness_error"] = r.choice([None, 0.5]); cfg2["max_cycles"] = r.choice([4, 6])
            jobs.append(({"opt": nm, "cfg": cfg2, "task": t2, "first_cfg": first, "sequence": [{"task": search.cont_task(obj="rastrigin", seed=r.randint(0, 10**6))}]},
                         {"opt": nm, "cfg": cfg2, "task": t2}))
    return jobs


def c18_decide(ctx, pairs, obs):
    n = 0
    for (ja, jb), oa, ob in zip(pairs, obs[0::2], obs[1::2]):
        n += 1
        if not oa["ok"] and ob["ok"]:
            ctx.violation(f"set_config-run:{ja['opt']}", f"{ja['opt']}: run after set_config_parameters raises {oa['error']}", {"kind": "pair", "a": ja, "b": jb}); continue
        if not (oa["ok"] and ob["ok"]): continue
        d = same_result(oa, ob)
        if d:
            ctx.violation(f"set_config-run:{ja['opt']}", f"{ja['opt']}: run after set_config_parameters(d) differs from a run constructed with the configuration: {d}", {"kind": "pair", "a": ja, "b": jb})
    return n


def run_pairs(pairs):
    flat = [j for p in pairs for j in p]
    return search.run_jobs(flat)


def replay_pair(rep, decide):
    class C:
        def __init__(s): s.v = []
        def violation(s, k, w, r): s.v.append((k, w))
    m = rep["replay"]
    c = C()
    if m.get("kind") == "pair":
        obs = search.run_jobs([m["a"], m["b"]], procs=2)
        decide(c, [(m["a"], m["b"])], obs)
    elif m.get("kind") == "job":
        c09_decide(c, [search.run_job(m["job"])])
    for k, w in c.v: print(k, "|", w[:400])
    return 1 if c.v else 0
