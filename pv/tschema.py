"""Structural extraction of optimize()'s statement schema (DESIGN.md §5.1): each top-level statement of
OptimizationAbstract.optimize is matched against the exact shape the model gives a meaning to and emitted
as a token of Loop.stmt; anything else becomes SUnknown, which the bridge lemma rejects."""
from __future__ import annotations
import ast
from pathlib import Path

from . import coq

HEADER = "(* GENERATED from /repo/pyvolutionary/abstract.py by pv/tschema.py on every run — do not edit. *)\n"


def norm(n) -> str:
    return ast.unparse(n)


def is_print_only(stmts) -> bool:
    return all(isinstance(s, ast.Expr) and isinstance(s.value, ast.Call) and norm(s.value.func) == "print" for s in stmts)


WORKERS = ("if workers is not None:\n    if workers <= 0:\n        raise ValueError('Invalid number of workers. It must be greater than 0')\n"
           "    self._workers = workers")


def classify(s: ast.stmt):
    """token text, or None for statements without effect on the model (docstring, debug prints)"""
    t = norm(s)
    if isinstance(s, ast.Expr) and isinstance(s.value, ast.Constant):
        return None
    if isinstance(s, ast.If) and not s.orelse and is_print_only(s.body) and "self._debug" in norm(s.test) \
            and all(isinstance(x, (ast.Name, ast.Attribute, ast.BoolOp)) for x in [s.test]):
        # `if self._debug: print(...)` / `if has_to_stop and self._debug: print(...)`
        return None
    if isinstance(s, ast.If) and not s.orelse and norm(s.test) == "not self._config" and len(s.body) == 1 \
            and isinstance(s.body[0], ast.Raise) and norm(s.body[0].exc).startswith("ValueError("):
        return "SCheckConfig"
    if t == "np.random.seed(task.seed)": return "SSeed"
    if t in ("evolution: list[Population] = []", "evolution = []"): return "SInitEvolution"
    if t == "self._current_cycle = 1": return "SResetCycle"
    if t == "self._errors = []": return "SResetErrors"
    if t == "self._error_diffs = []": return "SResetDiffs"
    if isinstance(s, ast.If) and norm(s.test) == "workers is not None" and not s.orelse and len(s.body) == 2 \
            and isinstance(s.body[0], ast.If) and norm(s.body[0].test) == "workers <= 0" and not s.body[0].orelse \
            and len(s.body[0].body) == 1 and isinstance(s.body[0].body[0], ast.Raise) and norm(s.body[0].body[0].exc).startswith("ValueError(") \
            and norm(s.body[1]) == "self._workers = workers":
        return "SWorkers"
    if isinstance(s, ast.If) and norm(s.test) == "mode is not None" and not s.orelse and len(s.body) == 1 and isinstance(s.body[0], ast.Try):
        tr = s.body[0]
        if len(tr.body) == 1 and norm(tr.body[0]) == "self._mode = ModeSolver(mode)" and len(tr.handlers) == 1 and not tr.orelse and not tr.finalbody \
                and norm(tr.handlers[0].type) == "ValueError" and len(tr.handlers[0].body) == 1 and isinstance(tr.handlers[0].body[0], ast.Raise) \
                and norm(tr.handlers[0].body[0].exc).startswith("ValueError("):
            return "SMode"
    if t == "self._task = task": return "SSetTask"
    if t == "self.before_initialization()": return "SBeforeInit"
    if t == "self._init_population()": return "SInitPop"
    if t == "self.after_initialization()": return "SAfterInit"
    if t == "evolution.append(Population(agents=self._population, task_type=task.minmax))": return "SSnapshot"
    if isinstance(s, ast.Assign) and len(s.targets) == 1 and norm(s.targets[0]) == "((self._best_agent,), (self._worst_agent,))" \
            and isinstance(s.value, ast.Call) and norm(s.value.func) == "special_agents" and len(s.value.args) == 1 \
            and norm(s.value.args[0]) == "self._population" and sorted(k.arg for k in s.value.keywords) == ["n_best", "n_worst"]:
        kw = {k.arg: k.value for k in s.value.keywords}
        if all(isinstance(v, ast.Constant) and isinstance(v.value, int) and v.value >= 0 for v in kw.values()):
            return f"SSpecial {kw['n_best'].value} {kw['n_worst'].value}"
    if isinstance(s, ast.While) and norm(s.test) == "True" and not s.orelse:
        inner = [classify(x) for x in s.body]
        return "SWhile [" + "; ".join(x for x in inner if x is not None) + "]"
    if t == "self.optimization_step()": return "SStep"
    if t == "error, fitness, has_to_stop = self.__error_check__()": return "SErrorCheck"
    if isinstance(s, ast.If) and norm(s.test) == "has_to_stop" and not s.orelse and len(s.body) == 1 and isinstance(s.body[0], ast.Break):
        return "SBreakIfStop"
    if t == "self._current_cycle += 1": return "SIncCycle"
    if t == "return OptimizationResult(evolution=evolution, rates=self._errors, best_solution=self._best_agent, task_type=task.minmax)":
        return "SReturn"
    return "SUnknown"


def extract(repo: Path) -> tuple[str, list[str]]:
    tree = ast.parse((repo / "pyvolutionary" / "abstract.py").read_text())
    fn = None
    for n in tree.body:
        if isinstance(n, ast.ClassDef) and n.name == "OptimizationAbstract":
            for m in n.body:
                if isinstance(m, ast.FunctionDef) and m.name == "optimize": fn = m
    if fn is None:
        return "[SUnknown]", ["optimize() not found"]
    # the names of the local variables carry no meaning: they are renamed to the model's names in order of first binding, so that a pure renaming of a local
    # (evolution -> history, has_to_stop -> done ...) still yields the same schema
    canon = ["evolution", "error", "fitness", "has_to_stop"]
    locs = []
    for n in ast.walk(fn):
        targets = []
        if isinstance(n, (ast.Assign,)): targets = n.targets
        elif isinstance(n, (ast.AnnAssign, ast.AugAssign)): targets = [n.target]
        for t in targets:
            for tt in (t.elts if isinstance(t, (ast.Tuple, ast.List)) else [t]):
                if isinstance(tt, ast.Name) and tt.id not in locs: locs.append(tt.id)
    # ast.walk is breadth-first: order the locals by source position of their first binding instead
    first = {}
    for n in ast.walk(fn):
        if isinstance(n, ast.Name) and isinstance(n.ctx, ast.Store) and n.id in locs: first.setdefault(n.id, (n.lineno, n.col_offset))
    locs = sorted(first, key=first.get)
    if len(locs) == len(canon) and locs != canon and not (set(locs) & {a.arg for a in fn.args.args}):
        ren = dict(zip(locs, canon))
        for n in ast.walk(fn):
            if isinstance(n, ast.Name) and n.id in ren: n.id = ren[n.id]
    params = [a.arg for a in fn.args.args]
    unknown = []
    toks = []
    if params != ["self", "task", "mode", "workers"] or [norm(d) for d in fn.args.defaults] != ["None", "None"]:
        toks.append("SUnknown"); unknown.append(f"signature {params}")
    for s in fn.body:
        c = classify(s)
        if c is None: continue
        if "SUnknown" in c: unknown.append(norm(s)[:120])
        toks.append(c)
    return "[" + "; ".join(toks) + "]", unknown


def emit(repo: Path, status: dict) -> None:
    sch, unknown = extract(repo)
    body = (HEADER + "From Coq Require Import List.\nFrom PV Require Import Loop.\nImport ListNotations.\n\n"
            f"Definition gen_optimize_schema : list stmt :=\n  {sch}.\n")
    coq.write_if_changed(coq.COQ / "gen" / "GenSchema.v", body)
    status["gen_optimize_schema"] = "regenerated" if not unknown else "UNSUPPORTED statements: " + " | ".join(unknown)
