"""Regeneration of coq/gen/*.v from /repo's working tree (T-core, T-algo). Files are rewritten only
when their content changes, so an unchanged tree costs no recompilation."""
from __future__ import annotations
import json
from pathlib import Path

from . import coq
from .tcore import Spec, Translator, Unsupported, NAT, X, F, BOOL, AGENT, DIR, OPT, RES, LIST, TUP, DICT

GEN = coq.COQ / "gen"
HEADER = "(* GENERATED from /repo by pv/regen.py on every run — do not edit. *)\n"


def select_specs() -> list[Spec]:
    P = ("population", "population", LIST(AGENT))
    TT = ("task_type", "task_type", DIR)
    h = "helpers.py"
    a = "abstract.py"
    cost_attr = {(AGENT, "cost"): ("cost", X)}
    return [
        # helpers.get_pool_results: results are collected in COMPLETION order (concurrent.futures.as_completed = the oracle permutation pool_perm), one per future
        Spec("gen_get_pool_results", h, None, "get_pool_results", [("executors", "executors", LIST(AGENT))], LIST(AGENT),
             attrs={"calls": {"parallel.as_completed": lambda arg: (f"(pool_perm {arg(0)[0]})", LIST(AGENT))}, "idioms": {"i.result()": ("{i}", AGENT)}}),
        Spec("gen_sort_by_cost", h, None, "sort_by_cost", [P, TT], LIST(AGENT), attrs=cost_attr),
        Spec("gen_sort_by_cost_indexes", h, None, "sort_by_cost_indexes",
             [P, TT, ("pi!", "pi", LIST(NAT))], LIST(NAT),
             attrs={**cost_attr, "argsort_of": ("(map (fun agent => (cost agent)) population)", "pi")}),
        Spec("gen_sort_and_trim", h, None, "sort_and_trim", [P, ("population_size", "population_size", NAT)], LIST(AGENT), attrs=cost_attr),
        Spec("gen_best_agents", h, None, "best_agents", [P, ("n_best", "n_best", NAT), TT], LIST(AGENT), attrs=cost_attr),
        Spec("gen_worst_agents", h, None, "worst_agents", [P, ("n_worst", "n_worst", NAT), TT], LIST(AGENT), attrs=cost_attr),
        Spec("gen_best_agent", h, None, "best_agent", [P, TT], AGENT, fallible=True, attrs=cost_attr),
        Spec("gen_worst_agent", h, None, "worst_agent", [P, TT], AGENT, fallible=True, attrs=cost_attr),
        Spec("gen_best_agents_indexes", h, None, "best_agents_indexes", [P, ("n_best", "n_best", NAT), TT, ("pi!", "pi", LIST(NAT))], LIST(NAT), attrs=cost_attr),
        Spec("gen_worst_agents_indexes", h, None, "worst_agents_indexes", [P, ("n_worst", "n_worst", NAT), TT, ("pi!", "pi", LIST(NAT))], LIST(NAT), attrs=cost_attr),
        Spec("gen_best_agent_index", h, None, "best_agent_index", [P, TT, ("pi!", "pi", LIST(NAT))], NAT, fallible=True, attrs=cost_attr),
        Spec("gen_worst_agent_index", h, None, "worst_agent_index", [P, TT, ("pi!", "pi", LIST(NAT))], NAT, fallible=True, attrs=cost_attr),
        Spec("gen_special_agents", h, None, "special_agents",
             [P, ("n_best", "n_best", OPT(NAT)), ("n_worst", "n_worst", OPT(NAT)), TT], TUP(LIST(AGENT), LIST(AGENT)),
             fallible=True, attrs=cost_attr),
        Spec("gen_greedy_select_agent", a, "OptimizationAbstract", "_greedy_select_agent",
             [("agent", "agent", AGENT), ("new_agent", "new_agent", AGENT)], AGENT, attrs=cost_attr),
        Spec("gen_greedy_select_population", a, "OptimizationAbstract", "_greedy_select_population",
             [("self._population", "pop", LIST(AGENT)), ("new_population", "new_population", LIST(AGENT)),
              ("self._mode", "mode", "mode")], LIST(AGENT), fallible=True, state="self._population",
             attrs={**cost_attr, "pool_perm": "gen_get_pool_results", "ModeSolver.SERIAL": ("SERIAL", "mode")}),
        Spec("gen_generate_agents", a, "OptimizationAbstract", "_generate_agents",
             [("n_agents", "n_agents", NAT), ("self._mode", "mode", "mode")], LIST(AGENT),
             attrs={"pool_perm": "gen_get_pool_results", "ModeSolver.SERIAL": ("SERIAL", "mode"),
                    "idioms": {"self._init_agent()": ("(init_draw i_)", AGENT),
                               "executor.submit(self._init_agent, self._task.empty_solution())": ("(init_draw i_)", AGENT)}}),
        Spec("gen_init_population", a, "OptimizationAbstract", "_init_population",
             [("self._population", "pop", LIST(AGENT)), ("self._config.population_size", "population_size", NAT), ("self._mode", "mode", "mode")],
             LIST(AGENT), state="self._population", attrs={"pool_perm": "pool_perm"}),
        Spec("gen_extend_and_trim_population", a, "OptimizationAbstract", "_extend_and_trim_population",
             [("self._population", "pop", LIST(AGENT)), ("new_population", "new_population", LIST(AGENT)),
              ("self._config.population_size", "population_size", NAT)], LIST(AGENT), state="self._population", attrs=cost_attr),
        Spec("gen_generate_group_population", a, "OptimizationAbstract", "_generate_group_population",
             [("self._population", "pop", LIST(AGENT)), ("self._config.population_size", "population_size", NAT), ("n_groups", "n_groups", NAT), ("n_agents", "n_agents", NAT),
              ("with_residual", "with_residual", BOOL)], LIST(LIST(AGENT)), attrs={**cost_attr, "calls": {"agent.model_copy": lambda arg: ("(copy agent)", AGENT)}}),
        Spec("gen_replace_and_trim_population", a, "OptimizationAbstract", "_replace_and_trim_population",
             [("self._population", "pop", LIST(AGENT)), ("new_population", "new_population", LIST(AGENT)),
              ("self._config.population_size", "population_size", NAT)], LIST(AGENT), state="self._population", attrs=cost_attr),
    ]


def vars_specs() -> list[Spec]:
    m = "models.py"
    ZT = "Z"
    C = "C"     # abstract type of a declared choice
    return [
        Spec("gen_cont_correct", m, "ContinuousVariable", "correct",
             [("self.lower_bound", "lower_bound", X), ("self.upper_bound", "upper_bound", X), ("value", "value", X)], X),
        Spec("gen_cont_validate", m, "ContinuousVariable", "validate_bounds",
             [("self.lower_bound", "lower_bound", X), ("self.upper_bound", "upper_bound", X)], "unit", fallible=True,
             attrs={"self_value": ("tt", "unit")}),
        Spec("gen_disc_get_bounds", m, "DiscreteVariable", "get_bounds", [("self.choices", "choices", LIST(C))], TUP(ZT, ZT),
             attrs={"len_as_Z": True}),
        Spec("gen_disc_correct", m, "DiscreteVariable", "correct",
             [("self.choices", "choices", LIST(C)), ("value", "value", X)], ZT, fallible=True, attrs={"len_as_Z": True}),
        Spec("gen_disc_decode", m, "DiscreteVariable", "decode",
             [("self.choices", "choices", LIST(C)), ("value", "value", X)], C, fallible=True, attrs={"len_as_Z": True}),
        Spec("gen_perm_correct", m, "PermutationVariable", "correct",
             [("value", "value", LIST(X)), ("pi!", "pi", LIST(NAT))], LIST(NAT), attrs={"argsort_of": ("value", "pi")}),
        Spec("gen_perm_labels", m, "PermutationVariable", "__init__", [("self.items", "items", LIST("L"))], RES(LIST("L")),
             attrs={"extract_assign": "self._labels", "only_after": [],
                    "stmts_before": ["super().__init__(**kwargs)", "self._label_encoder = LabelEncoder()", "self._label_encoder.fit(self.items)"],
                    "idioms": {"sorted(self.items, key=lambda x: self._label_encoder.transform([x])[0])":
                               ("(sorted_by_opt_key L (fun x_ => obind (enc_transform [x_]) (fun r_ => nth_error r_ 0)) {self.items})", RES(LIST("L")))}}),
        Spec("gen_perm_decode", m, "PermutationVariable", "decode",
             [("self._labels", "labels", LIST("L")), ("value", "value", LIST(X)), ("pi!", "pi", LIST(NAT))], LIST("L"), fallible=True,
             attrs={"argsort_of": ("value", "pi")}),
        Spec("gen_binary_validate", m, "BinaryVariable", "validate_n_vars", [("v", "v", ZT)], ZT, fallible=True,
             attrs={"len_as_Z": True}, skip_params=("self", "cls")),
    ]


def label_specs() -> list[Spec]:
    """models.LabelEncoder (fit: the two fields; inverse_transform) as PermutationVariable uses it"""
    m, L = "models.py", "L"
    SORT = "sorted(set(y), key=lambda x: (isinstance(x, (int, float)), x))"
    AFTER = ["self.__label_to_index__ =", "return self"]
    return [
        Spec("gen_le_fit_labels", m, "LabelEncoder", "fit", [("y", "y", LIST(L))], LIST(L),
             attrs={"extract_assign": "self.__unique_labels__", "only_after": AFTER, "idioms": {SORT: ("(py_sorted_set L eqb leb {y})", LIST(L))}}),
        Spec("gen_le_fit_index", m, "LabelEncoder", "fit", [("y", "y", LIST(L)), ("self.__unique_labels__", "labels", LIST(L))], DICT(L, NAT),
             attrs={"extract_assign": "self.__label_to_index__", "assigned_before": ("self.__unique_labels__",), "only_after": ["return self"], "label_eqb": ("eqb", L)}),
        Spec("gen_le_transform", m, "LabelEncoder", "transform",
             [("self.__unique_labels__", "labels", OPT(LIST(L))), ("self.__label_to_index__", "index", DICT(L, NAT)), ("y", "y", LIST(L))], LIST(NAT), fallible=True,
             attrs={"idioms": {"self.__set_y__(y)": ("{y}", LIST(L))}, "label_eqb": ("eqb", L)}),
        Spec("gen_le_inverse_transform", m, "LabelEncoder", "inverse_transform",
             [("self.__unique_labels__", "labels", OPT(LIST(L))), ("self.__label_to_index__", "index", DICT(L, NAT)), ("y", "y", LIST(NAT))], LIST(L), fallible=True,
             attrs={"idioms": {"self.__set_y__(y)": ("{y}", LIST(NAT))}, "str_consts": {"unknown": ("unknown", L)}}),
    ]


FLOATS = {"sub": "fsub", "abs": "fabs", "ltb": "fltb", "leb": "fleb", "zero": "fzero", "one": "fone", "opp": "fopp", "add": "fadd", "div": "fdiv"}


def stop_specs() -> list[Spec]:
    a = "abstract.py"
    CFG, ES = "(cfg F)", "(es F)"
    cfg_attrs = {(CFG, "fitness_error"): ("fitness_error", OPT(F)), (CFG, "max_cycles"): ("max_cycles", NAT),
                 (CFG, "early_stopping"): ("early", OPT(ES)), (ES, "min_delta"): ("min_delta", F), (ES, "patience"): ("patience", NAT)}
    return [
        Spec("gen_should_stop", a, "OptimizationAbstract", "__should_stop__",
             [("self._config", "c", CFG), ("self._current_cycle", "cycle", NAT), ("self._error_diffs", "diffs", LIST(F)),
              ("current_error", "current_error", F)], BOOL, attrs=cfg_attrs, floats=FLOATS),
        Spec("gen_error_check", a, "OptimizationAbstract", "__error_check__",
             [("self._config", "c", CFG), ("self._current_cycle", "cycle", NAT), ("self._errors", "errors", LIST(F)),
              ("self._error_diffs", "diffs", LIST(F)), ("avg!", "avg_fit", F)], TUP(F, F, BOOL, LIST(F), LIST(F)),
             attrs={**cfg_attrs, "mutable": ("self._errors", "self._error_diffs"),
                    "return_states": ["self._errors", "self._error_diffs"],
                    "calls": {"average_fitness": lambda arg: ("avg_fit", F)}}, floats=FLOATS),
    ]


def avg_specs() -> list[Spec]:
    # helpers.average_fitness: the one place the rate's "mean fitness" is computed; numpy's average itself is the oracle `mean`
    return [Spec("gen_average_fitness", "helpers.py", None, "average_fitness", [("population", "population", LIST(AGENT))], F,
                 attrs={"idioms": {"np.average([agent.fitness for agent in population])": ("(mean (map fit {population}))", F)}})]


def report_specs() -> list[Spec]:
    m = "models.py"
    cost_attr = {(AGENT, "cost"): ("cost", X)}
    return [
        Spec("gen_population_refine", m, "Population", "__init__>refine_agent", [("a", "a", AGENT), ("tt", "tt", DIR)], AGENT, attrs=cost_attr),
        Spec("gen_result_refine", m, "OptimizationResult", "__init__>refine_best_solution", [("a", "a", AGENT), ("tt", "tt", DIR)], AGENT, attrs=cost_attr),
    ]


def init_specs() -> list[Spec]:
    m, a, h = "models.py", "abstract.py", "helpers.py"
    COORD, OBJV, TASK, SVAR, AG = "coord", "objv", "task", "svar", "(agent FT)"
    T = ("t!", "t", TASK)
    OBJ_CALL = {"self.objective_function": lambda arg: (f"(obj {arg(0)[0]})", OBJV)}
    return [
        Spec("gen_task_correct_solution", m, "Task", "correct_solution", [T, ("solution", "solution", LIST(COORD))], LIST(COORD), fallible=True,
             attrs={"idioms": {"self.get_variables()": ("(flat_vars t)", LIST(SVAR))},
                    "calls": {"v.correct": lambda arg: (f"(correct1 v {arg(0)[0]})", RES(COORD))}}),
        Spec("gen_task_solve", m, "Task", "solve", [T, ("x", "x", LIST(COORD))], OBJV, fallible=True, attrs={"calls": OBJ_CALL}),
        Spec("gen_task_initial_solution", m, "Task", "initial_solution",
             [T, ("solution", "solution", OPT(LIST(COORD))), ("draw!", "draw", LIST(COORD))], LIST(COORD), fallible=True,
             attrs={"idioms": {"solution.tolist() if isinstance(solution, np.ndarray) else solution": ("{solution}", OPT(LIST(COORD))),
                               "solution if solution is not None else self.empty_solution()":
                                   ("(match {solution} with Some s_ => s_ | None => draw end)", LIST(COORD))}}),
        Spec("gen_fcn", a, "OptimizationAbstract", "_fcn", [T, ("self._task.minmax", "d", DIR), ("x", "x", LIST(COORD))], OBJV, fallible=True,
             attrs={"idioms": {"[-1 * c for c in cost] if isinstance(cost, list) else -1 * cost": ("(objv_neg {cost})", OBJV)}}),
        Spec("gen_init_agent", a, "OptimizationAbstract", "_init_agent",
             [T, ("self._task.minmax", "d", DIR), ("self._task.objective_weights", "w", OPT(LIST("W"))),
              ("position", "position", OPT(LIST(COORD))), ("draw!", "draw", LIST(COORD))], AG, fallible=True,
             attrs={"idioms": {
                 "len(self._task.objective_weights) if self._task.objective_weights is not None else 1": ("(n_weights W w)", NAT),
                 "len(cost) if isinstance(cost, list) else 1": ("(objv_count {cost})", NAT),
                 "np.dot(cost, self._task.objective_weights) if self._task.objective_weights is not None else cost": ("(mix W dot {cost} w)", RES(X)),
                 "Agent(position=position, cost=cost, fitness=calculate_fitness(cost, self._task.minmax))":
                     ("{{| a_pos := {position}; a_cost := {cost}; a_fit := fitness_of {cost} d |}}", AG)}}),
        Spec("gen_fitness", h, None, "calculate_fitness", [("value", "value", F), ("task_type", "task_type", DIR)], F, floats=FLOATS),
        Spec("gen_task_validate_weights", m, "Task", "validate_objective_weights", [("self.objective_weights", "weights", OPT(LIST(X)))], "unit", fallible=True,
             attrs={"self_value": ("tt", "unit"),
                    "idioms": {"np.all(np.array(self.objective_weights) >= 0)": ("(forallb (fun w_ => xleb (XFin 0) w_) (opt_list weights))", BOOL)}}),
    ]


def trend_specs() -> list[Spec]:
    u = "utils.py"
    EVO = LIST(LIST(AGENT))
    ps = [("result.evolution", "evo", EVO), ("result.task_type", "d", DIR), ("idx", "idx", NAT), ("iters", "iters", OPT(LIST(NAT)))]
    pb = [("result.evolution", "evo", EVO), ("result.task_type", "d", DIR), ("iters", "iters", OPT(LIST(NAT)))]
    cell = lambda field, sel, ty: {"idioms": {f"sort_by_cost(result.evolution[i].agents, result.task_type)[idx].{field}": (f"(trend_cell A cost {ty} {sel} evo d {{i}} {{idx}})", RES(ty))}}
    return [
        Spec("gen_agent_trend", u, None, "agent_trend", ps, LIST(X), fallible=True, attrs=cell("cost", "cost", X), skip_params=("result",)),
        Spec("gen_best_agent_trend", u, None, "best_agent_trend", pb, LIST(X), fallible=True, skip_params=("result",)),
        Spec("gen_agent_position", u, None, "agent_position", ps, LIST("POS"), fallible=True, attrs=cell("position", "pos", "POS"), skip_params=("result",)),
        Spec("gen_best_agent_position", u, None, "best_agent_position", pb, LIST("POS"), fallible=True, skip_params=("result",)),
    ]


def multi_specs() -> list[Spec]:
    mt = "multitask.py"
    V = "V"
    TBL = OPT(LIST(LIST(V)))
    return [
        Spec("gen_multi_check_input", mt, "Multitask", "__check_input__",
             [("values", "values", OPT(LIST(V))), ("is_tuple!", "is_tuple", BOOL), ("self._n_algorithms", "n", NAT), ("self._m_tasks", "m", NAT)],
             TBL, fallible=True, skip_params=("self", "name", "kind"),
             attrs={"idioms": {"not isinstance(values, tuple)": ("(negb is_tuple)", BOOL),
                               "deepcopy(values[0])": ("(hd serial {values})", V),
                               "deepcopy(values[idx])": ("(nth {idx} {values} serial)", V),
                               "deepcopy(values)": ("{values}", LIST(V))}}),
        Spec("gen_multi_check_modes", mt, "Multitask", "__check_modes__", [("self._modes", "modes", TBL)], "unit", fallible=True,
             attrs={"idioms": {"all([mode in ModeSolver for mode in list(chain.from_iterable(self._modes))])": ("(forallb valid (concat {self._modes}))", BOOL)}}),
        Spec("gen_multi_get_mode", mt, "Multitask", "__get_mode__",
             [("self._modes", "modes", TBL), ("id_optimizer", "id_optimizer", NAT), ("id_prob", "id_prob", NAT)], V, fallible=True,
             attrs={"idioms": {"'serial'": ("serial", V)},
                    "calls": {"ModeSolver": lambda arg: (f"(if valid {arg(0)[0]} then Some {arg(0)[0]} else None)", RES(V))}}),
    ]


def task_specs() -> list[Spec]:
    """the Task-level loops and comprehensions (C14), parametric in the per-variable methods of the hand model (size, children, lowers / uppers, decode_var)"""
    m = "models.py"
    NV, SV, BS, DV, COORD = "(nat * var)", "svar", "bside", "dval", "coord"
    VARS = ("self.variables", "variables", LIST(NV))
    per_var = {"v.size": lambda arg: ("(size (snd v))", NAT)}
    return [
        Spec("gen_task_dimension", m, "Task", "__init__", [("variables", "variables", LIST(NV))], NAT, skip_params=("self",),
             attrs={"extract_assign": "kwargs['space_dimension']", "calls": per_var}),
        Spec("gen_task_get_variables", m, "Task", "get_variables", [VARS], LIST(SV),
             attrs={"idioms": {"v.get() if v.has_children() else [v.get()]": ("(children (snd v))", LIST(SV))}}),
        Spec("gen_task_get_bounds", m, "Task", "get_bounds", [VARS], TUP(LIST(BS), LIST(BS)),
             attrs={"calls": {"v.get_bounds": lambda arg: ("(lowers (snd v), uppers (snd v))", TUP(LIST(BS), LIST(BS))),
                              "np.array": lambda arg: arg(0)},
                    "idioms": {"lb_ if v.has_children() else [lb_]": ("{lb_}", LIST(BS)), "ub_ if v.has_children() else [ub_]": ("{ub_}", LIST(BS))}}),
        # empty_solution: the concatenation, in declaration order, of one sample per variable (a multi-variable's sample being its children's samples)
        Spec("gen_task_empty_solution", m, "Task", "empty_solution", [VARS], LIST(COORD),
             attrs={"idioms": {"v.randomize() if v.has_children() else [v.randomize()]": ("(randomize_var (snd v))", LIST(COORD))}}),
        Spec("gen_task_transform_solution", m, "Task", "transform_solution", [VARS, ("x", "x", LIST(COORD))], DICT(NAT, DV), fallible=True,
             attrs={"calls": per_var, (NV, "name"): ("fst", NAT),
                    "idioms": {"v.decode(temp if v.has_children() else temp[0])": ("(decode_var (snd v) {temp})", RES(DV))}}),
    ]


def multivar_specs() -> list[Spec]:
    """the multi-variable classes (C13 / C14: "multi / binary variables delegate to children"): construction of the children, correct / decode over the
    children, size, bounds, validators - parametric in the scalar rules correct1 / decode1 / sv_bounds of the hand model, which the scalar specs tie"""
    import ast as _ast
    m = "models.py"
    SV, COORD, DV, BS, C = "svar", "coord", "dval", "bside", "C"
    CH = ("self._children", "children", LIST(SV))
    VAL = ("value", "value", LIST(COORD))
    LO, HI = ("self.lower_bounds", "lower_bounds", LIST(X)), ("self.upper_bounds", "upper_bounds", LIST(X))
    child_calls = {"v.correct": lambda arg: (f"(correct1 v {arg(0)[0]})", RES(COORD)), "v.decode": lambda arg: (f"(decode1 v {arg(0)[0]})", RES(DV)),
                   "v.get_bounds": lambda arg: ("(sv_bounds v)", TUP(BS, BS))}
    init_attrs = {"allow_kwargs": True, "skip_stmts": ("super().__init__(**kwargs)",)}

    def cont_ctor(kws, tr):
        if set(kws) != {"name", "lower_bound", "upper_bound"}: raise Unsupported("ContinuousVariable(...) keywords")
        (lo, tlo), (hi, thi) = tr(kws["lower_bound"]), tr(kws["upper_bound"])
        if tlo != X or thi != X: raise Unsupported("ContinuousVariable bounds type")
        return (f"(SCont {lo} {hi})", SV)

    def disc_ctor(kws, tr):
        if set(kws) != {"name", "choices"}: raise Unsupported("DiscreteVariable(...) keywords")
        if _ast.unparse(kws["choices"]) == "[0, 1]": return ("(SDisc 2)", SV)
        c, tc = tr(kws["choices"])
        if tc == RES(LIST(C)): return (f"(option_map (fun c_ => SDisc (length c_)) {c})", RES(SV))
        if tc == LIST(C): return (f"(SDisc (length {c}))", SV)
        raise Unsupported("DiscreteVariable choices type")

    out = []
    for cls, k in (("ContinuousMultiVariable", "cmv"), ("MultiObjectiveVariable", "mov")):
        out += [
            Spec(f"gen_{k}_get_bounds", m, cls, "get_bounds", [LO, HI], TUP(LIST(X), LIST(X))),
            Spec(f"gen_{k}_children", m, cls, "__init__", [LO, HI], LIST(SV), state="self._children", attrs={**init_attrs, "kwcalls": {"ContinuousVariable": cont_ctor}}),
            Spec(f"gen_{k}_validate", m, cls, "validate_bounds", [LO, HI], "unit", fallible=True, attrs={"self_value": ("tt", "unit")}),
            Spec(f"gen_{k}_size", m, cls, "size", [LO], NAT),
        ]
    out += [
        Spec("gen_dmv_children", m, "DiscreteMultiVariable", "__init__", [("self.choices", "choices", LIST(LIST(C)))], LIST(SV), fallible=True, state="self._children",
             attrs={**init_attrs, "kwcalls": {"DiscreteVariable": disc_ctor}}),
        Spec("gen_dmv_get_bounds", m, "DiscreteMultiVariable", "get_bounds", [CH], TUP(LIST(BS), LIST(BS)), attrs={"calls": child_calls}),
        Spec("gen_dmv_size", m, "DiscreteMultiVariable", "size", [("self.choices", "choices", LIST(LIST(C)))], NAT),
        Spec("gen_bin_children", m, "BinaryVariable", "__init__", [("self.n_vars", "n_vars", NAT)], LIST(SV), state="self._children",
             attrs={**init_attrs, "kwcalls": {"DiscreteVariable": disc_ctor}}),
        Spec("gen_bin_get_bounds", m, "BinaryVariable", "get_bounds", [("self.n_vars", "n_vars", NAT)], TUP(LIST(BS), LIST(BS)),
             attrs={"idioms": {"np.zeros(self.n_vars)": ("(repeat (BSNum (xint 0)) {self.n_vars})", LIST(BS)),
                               "(2 - np.finfo(float).eps) * np.ones(self.n_vars)": ("(repeat (BSNum BIN_HI) {self.n_vars})", LIST(BS))}}),
        Spec("gen_bin_size", m, "BinaryVariable", "size", [("self.n_vars", "n_vars", NAT)], NAT),
    ]
    for cls, k in (("ContinuousMultiVariable", "cmv"), ("MultiObjectiveVariable", "mov"), ("DiscreteMultiVariable", "dmv"), ("BinaryVariable", "bin")):
        out += [
            Spec(f"gen_{k}_correct", m, cls, "correct", [CH, VAL], LIST(COORD), fallible=True, attrs={"calls": child_calls}),
            Spec(f"gen_{k}_decode", m, cls, "decode", [CH, VAL], LIST(DV), fallible=True, attrs={"calls": child_calls}),
            Spec(f"gen_{k}_get", m, cls, "get", [CH], LIST(SV)),
        ]
    for cls, k in (("ContinuousVariable", "cont"), ("ContinuousMultiVariable", "cmv"), ("MultiObjectiveVariable", "mov"), ("DiscreteVariable", "disc"),
                   ("DiscreteMultiVariable", "dmv"), ("BinaryVariable", "bin"), ("PermutationVariable", "perm")):
        out.append(Spec(f"gen_{k}_has_children", m, cls, "has_children", [], BOOL))
    for cls, k in (("ContinuousVariable", "cont"), ("DiscreteVariable", "disc"), ("PermutationVariable", "perm")):
        out.append(Spec(f"gen_{k}_size", m, cls, "size", [], NAT))
    # random sampling: each class's randomize() is a function of its declared fields and of numpy draws alone (C07: nothing else is read, nothing is written;
    # C13: one draw per child, in order).  numpy's draws are the oracles draw_uniform / draw_choice / draw_perm.
    out += [
        Spec("gen_cont_randomize", m, "ContinuousVariable", "randomize", [("self.lower_bound", "lower_bound", X), ("self.upper_bound", "upper_bound", X)], X,
             attrs={"idioms": {"np.random.uniform(self.lower_bound, self.upper_bound)": ("(draw_uniform {self.lower_bound} {self.upper_bound})", X)}}),
        Spec("gen_disc_randomize", m, "DiscreteVariable", "randomize", [("self.choices", "choices", LIST(C))], NAT,
             attrs={"idioms": {"np.random.choice(range(0, len(self.choices)))": ("(draw_choice (length {self.choices}))", NAT)}}),
        Spec("gen_perm_randomize", m, "PermutationVariable", "randomize", [("self.items", "items", LIST("L"))], LIST(NAT),
             attrs={"idioms": {"np.random.permutation(range(0, len(self.items))).tolist()": ("(draw_perm (length {self.items}))", LIST(NAT))}}),
    ]
    for cls, k in (("ContinuousMultiVariable", "cmv"), ("MultiObjectiveVariable", "mov"), ("DiscreteMultiVariable", "dmv"), ("BinaryVariable", "bin")):
        out.append(Spec(f"gen_{k}_randomize", m, cls, "randomize", [CH], LIST(COORD), attrs={"calls": {"v.randomize": lambda arg: ("(randomize1 v)", COORD)}}))
    return out


def emit_group(repo: Path, fname: str, imports: str, section_vars: str, specs: list[Spec], status: dict,
               extra: str = "") -> None:
    tr = Translator(repo, specs)
    defs, flags = [], []
    for sp in specs:
        try:
            txt = tr.translate(sp)
            defs.append(txt)
            flags.append(f"Definition {sp.out}_mutates_param : bool := {'true' if tr.mutates_param else 'false'}.")
            status[sp.out] = "regenerated"
        except Unsupported as e:
            status[sp.out] = f"UNSUPPORTED: {e}"
            defs.append(f"(* {sp.out}: not translated: {str(e).replace('*)', '* )')} *)")
        except Exception as e:  # fail closed on anything unexpected
            status[sp.out] = f"ERROR: {type(e).__name__}: {e}"
            defs.append(f"(* {sp.out}: translator error {type(e).__name__} *)")
    body = (HEADER + imports + "\nSection Gen.\n" + section_vars + "\n" + "\n\n".join(defs) + "\nEnd Gen.\n\n"
            + "\n".join(flags) + "\n" + extra)
    coq.write_if_changed(GEN / fname, body)


def regenerate(repo: Path) -> dict:
    status: dict = {}
    imports = ("From Coq Require Import List ZArith Bool Arith.\nFrom PV Require Import Xnum Select PyLib.\n"
               "Import ListNotations.\n")
    emit_group(repo, "GenSelect.v", imports,
               "Variable A : Type.\nVariable cost : A -> xnum.\nVariable copy : A -> A.\n"
               "Variable pool_perm : list A -> list A.\nVariable init_draw : nat -> A.\n", select_specs(), status)
    emit_group(repo, "GenVars.v", "From Coq Require Import List ZArith Bool Arith.\nFrom PV Require Import Xnum Select PyLib Argsort Labels.\n"
               "Import ListNotations.\n",
               "Variable C : Type.\nVariable L : Type.\nVariable enc_transform : list L -> option (list nat).\n", vars_specs(), status)
    emit_group(repo, "GenStop.v", "From Coq Require Import List ZArith Bool Arith.\nFrom PV Require Import Xnum Select PyLib Loop.\n"
               "Import ListNotations.\n",
               "Variable F : Type.\nVariables (fsub : F -> F -> F) (fabs : F -> F) (fltb fleb : F -> F -> bool) (fzero fone : F).\n"
               "Variable A : Type.\nVariable cost : A -> xnum.\nVariable with_cost : A -> xnum -> A.\n"
               "Variable fit : A -> F.\nVariable mean : list F -> F.\n",
               stop_specs() + report_specs() + avg_specs(), status)
    emit_group(repo, "GenInit.v", "From Coq Require Import List ZArith Bool Arith.\nFrom PV Require Import Xnum Select PyLib Argsort Vars Init.\n"
               "Import ListNotations.\n",
               "Variable W : Type.\nVariable dot : list xnum -> list W -> xnum.\nVariable FT : Type.\nVariable fitness_of : xnum -> dir -> FT.\n"
               "Variable obj : list coord -> objv.\n"
               "Variable F : Type.\nVariables (fadd fdiv : F -> F -> F) (fabs fopp : F -> F) (fleb fltb : F -> F -> bool) (fzero fone : F).\n",
               init_specs(), status)
    emit_group(repo, "GenTrend.v", "From Coq Require Import List ZArith Bool Arith.\nFrom PV Require Import Xnum Select PyLib Trend.\n"
               "Import ListNotations.\n",
               "Variable A : Type.\nVariable cost : A -> xnum.\nVariable POS : Type.\nVariable pos : A -> POS.\n", trend_specs(), status)
    emit_group(repo, "GenMulti.v", "From Coq Require Import List ZArith Bool Arith.\nFrom PV Require Import Xnum Select PyLib.\nImport ListNotations.\n",
               "Variable V : Type.\nVariable valid : V -> bool.\nVariable serial : V.\n", multi_specs(), status)
    emit_group(repo, "GenTask.v", "From Coq Require Import List ZArith Bool Arith.\nFrom PV Require Import Xnum Select PyLib Argsort Vars.\nImport ListNotations.\n",
               "Variable randomize_var : var -> list coord.\n", task_specs(), status)
    emit_group(repo, "GenMultiVar.v", "From Coq Require Import List ZArith Bool Arith.\nFrom PV Require Import Xnum Select PyLib Argsort Vars.\nImport ListNotations.\n",
               "Variable C : Type.\nVariable L : Type.\nVariable draw_uniform : xnum -> xnum -> xnum.\nVariable draw_choice : nat -> nat.\n"
               "Variable draw_perm : nat -> list nat.\nVariable randomize1 : svar -> coord.\n", multivar_specs(), status)
    emit_group(repo, "GenLabels.v", "From Coq Require Import List ZArith Bool Arith.\nFrom PV Require Import Xnum Select PyLib Labels.\nImport ListNotations.\n",
               "Variable L : Type.\nVariable eqb : L -> L -> bool.\nVariable leb : L -> L -> bool.\nVariable unknown : L.\n", label_specs(), status)
    import ast as _ast
    try:
        mt = _ast.parse((repo / "pyvolutionary" / "models.py").read_text())
        ann = ""
        for c in mt.body:
            if isinstance(c, _ast.ClassDef) and c.name == "Task":
                for st in c.body:
                    if isinstance(st, _ast.AnnAssign) and isinstance(st.target, _ast.Name) and st.target.id == "seed":
                        ann = _ast.unparse(st.annotation) + " = " + (_ast.unparse(st.value) if st.value is not None else "")
        ok = ann.replace(" ", "") in ("int|None=None", "Optional[int]=None", "None|int=None")
        status["gen_task_seed_is_int"] = "regenerated" if ok else f"UNSUPPORTED: Task.seed annotated `{ann}`"
    except Exception as e:
        ok = False; status["gen_task_seed_is_int"] = f"ERROR: {e}"
    coq.write_if_changed(GEN / "GenSeed.v", HEADER + f"Definition gen_task_seed_is_int : bool := {'true' if ok else 'false'}.\n")
    from . import tschema, thyper
    tschema.emit(repo, status)
    thyper.emit(repo, status)
    from . import talgo, expected
    try:
        sks, missing = talgo.analyse(repo)
        coq.write_if_changed(GEN / "Algos.v", talgo.emit_algos(sks, missing))
        coq.write_if_changed(GEN / "ElitProgs.v", talgo.emit_progs(sks))
        status["algos"] = "regenerated" if not missing else "regenerated (missing: " + ", ".join(missing) + ")"
        status["_skeletons"] = {s["name"]: {"prov": talgo.conforms_prov(s), "elitist": talgo.is_elitist(s), "size_regular": talgo.is_size_regular(s),
                                           "raw_sites": s["raw_sites"], "core_writes": s["core_writes"], "objective_calls": s["objective_calls"],
                                           "reflect": s["reflect"], "init_agent_ok": s["init_agent_ok"], "step": [(k, f) for k, f, _ in s["step"]],
                                           "fields": s["fields"], "greedy": s["greedy"], "fingerprint": s["fingerprint"], "src_fingerprint": s["src_fingerprint"]} for s in sks}
    except Exception as e:
        status["algos"] = f"ERROR: {type(e).__name__}: {e}"
        coq.write_if_changed(GEN / "Algos.v", "(* T-algo failed: " + str(e).replace("*)", "* )") + " *)\n")
    coq.write_if_changed(GEN / "Expected.v", expected.emit_expected())
    from . import regen_more
    regen_more.regenerate(repo, status)
    coq.write_if_changed(GEN / "status.json", json.dumps(status, indent=1, sort_keys=True))
    return status
