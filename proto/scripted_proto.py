"""Prototype of the scripted optimizer: drives the real optimize() through a chosen population history."""
import sys, io, contextlib, warnings; warnings.filterwarnings("ignore")
sys.path.insert(0, "/repo")
import numpy as np
from pyvolutionary import Task, ContinuousMultiVariable, Agent, EarlyStopping
from pyvolutionary.abstract import OptimizationAbstract
from pyvolutionary.models import BaseOptimizationConfig

class Dummy(Task):
    def objective_function(self, x): return 0.0

class Scripted(OptimizationAbstract):
    """population k of the script is installed at cycle k (k = 0 is the initial population)"""
    def __init__(self, config, script):
        super().__init__(config); self.script = script; self.steps = 0
    def set_config_parameters(self, parameters): self._config = BaseOptimizationConfig(**parameters)
    def _init_population(self): self._population = list(self.script[0])
    def optimization_step(self):
        self.steps += 1
        self._population = list(self.script[min(self.steps, len(self.script) - 1)])

def mkpop(fits, costs=None):
    costs = costs or [0.0] * len(fits)
    return [Agent(position=[0.0], cost=c, fitness=f) for f, c in zip(fits, costs)]

def run(script, **cfg):
    o = Scripted(BaseOptimizationConfig(population_size=len(script[0]), **cfg), script)
    t = Dummy(variables=[ContinuousMultiVariable(name="x", lower_bounds=[-1], upper_bounds=[1])])
    with contextlib.redirect_stdout(io.StringIO()):
        r = o.optimize(t)
    return o.steps, len(r.evolution), [float(x).hex() for x in r.rates], r.best_solution.cost

# rates decreasing slowly: mean fitness 0.5, 0.6, 0.65, 0.66, 0.661, ...
fits = [0.5, 0.6, 0.65, 0.66, 0.661, 0.6611, 0.66111, 0.7, 0.95, 0.999]
script = [mkpop([0.1, 0.2])] + [mkpop([f, f]) for f in fits]
print("budget only      ", run(script, max_cycles=6, fitness_error=None)[:2])
print("fitness_error 0.1", run(script, max_cycles=50, fitness_error=0.1)[:2], "(|1-0.95|=0.05 <= 0.1 at cycle 9)")
print("early p=1 d=0.02 ", run(script, max_cycles=50, fitness_error=None, early_stopping=EarlyStopping(patience=1, min_delta=0.02))[:2])
print("early p=3 d=0.02 ", run(script, max_cycles=50, fitness_error=None, early_stopping=EarlyStopping(patience=3, min_delta=0.02))[:2])
print("costs/best       ", run([mkpop([.5,.5,.5],[3.0,1.0,2.0]), mkpop([.5,.5,.5],[5.0,4.0,4.0])], max_cycles=1, fitness_error=None))
