From Coq Require Import List ZArith Bool Lia Permutation Sorted.
Import ListNotations.

Inductive xnum := XNaN | XNInf | XFin (z : Z) | XPInf.
Definition xltb (a b : xnum) : bool :=
  match a, b with
  | XNaN, _ | _, XNaN => false
  | XNInf, XNInf => false | XNInf, _ => true
  | _, XNInf => false
  | XFin x, XFin y => (x <? y)%Z
  | XFin _, XPInf => true
  | XPInf, _ => false
  end.
Definition xleb (a b : xnum) : bool :=
  match a, b with
  | XNaN, _ | _, XNaN => false
  | XNInf, _ => true
  | _, XNInf => false
  | XFin x, XFin y => (x <=? y)%Z
  | _, XPInf => true
  | XPInf, _ => false
  end.
Definition xneg (a : xnum) := match a with XNaN => XNaN | XNInf => XPInf | XFin z => XFin (- z) | XPInf => XNInf end.
Definition non_nan (a : xnum) := a <> XNaN.

Lemma xleb_total a b : non_nan a -> non_nan b -> xleb a b = true \/ xleb b a = true.
Proof.
  unfold non_nan; destruct a, b; cbn; intros; try congruence; auto.
  destruct (Z.leb_spec z z0); auto. right. apply Z.leb_le. lia.
Qed.
Lemma xleb_trans a b c : xleb a b = true -> xleb b c = true -> xleb a c = true.
Proof.
  destruct a, b, c; cbn; intros; try congruence; auto.
  apply Z.leb_le. apply Z.leb_le in H, H0. lia.
Qed.
Lemma xltb_not_leb a b : non_nan a -> non_nan b -> xltb a b = negb (xleb b a).
Proof.
  unfold non_nan; destruct a, b; cbn; intros; try congruence; auto.
  destruct (Z.ltb_spec z z0), (Z.leb_spec z0 z); cbn; auto; lia.
Qed.
Lemma xneg_invol a : xneg (xneg a) = a.
Proof. destruct a; cbn; auto. f_equal; lia. Qed.
Lemma xneg_ltb a b : xltb (xneg a) (xneg b) = xltb b a.
Proof.
  destruct a, b; cbn; auto.
  destruct (Z.ltb_spec (-z) (-z0)), (Z.ltb_spec z0 z); auto; lia.
Qed.

Record agent := { aid : nat; cost : xnum }.
Inductive dir := MIN | MAX.
(* "a may stay in front of b" in direction d: Python's sort uses `<` on keys (reverse: on swapped keys), stable *)
Definition before (d : dir) (a b : agent) : bool :=
  match d with MIN => negb (xltb (cost b) (cost a)) | MAX => negb (xltb (cost a) (cost b)) end.
Definition better (d : dir) (a b : agent) : bool :=
  match d with MIN => xltb (cost a) (cost b) | MAX => xltb (cost b) (cost a) end.

Fixpoint insert (d : dir) (a : agent) (l : list agent) : list agent :=
  match l with [] => [a] | b :: t => if before d a b then a :: l else b :: insert d a t end.
(* stable insertion sort: insert from the right so equal keys keep their order *)
Definition sort_by_cost (d : dir) (l : list agent) : list agent := fold_right (insert d) [] l.
Definition best_agents (n : nat) (d : dir) (l : list agent) := firstn n (sort_by_cost d l).

Lemma insert_perm d a l : Permutation (a :: l) (insert d a l).
Proof. induction l as [|b t IH]; cbn; auto. destruct (before d a b); auto. rewrite perm_swap. constructor. exact IH. Qed.
Lemma sort_perm d l : Permutation l (sort_by_cost d l).
Proof. induction l as [|a t IH]; cbn; auto. rewrite <- insert_perm. constructor; exact IH. Qed.

Definition costs_ok (l : list agent) := Forall (fun a => non_nan (cost a)) l.

Lemma before_total d a b : non_nan (cost a) -> non_nan (cost b) -> before d a b = true \/ before d b a = true.
Proof.
  intros Ha Hb. destruct d; cbn; rewrite !xltb_not_leb, !negb_involutive by auto;
  [apply xleb_total | destruct (xleb_total (cost a) (cost b) Ha Hb); auto]; auto.
Qed.
Lemma before_trans d a b c : non_nan (cost a) -> non_nan (cost b) -> non_nan (cost c) ->
  before d a b = true -> before d b c = true -> before d a c = true.
Proof.
  intros Ha Hb Hc. destruct d; cbn; rewrite !xltb_not_leb, !negb_involutive by auto; intros; eapply xleb_trans; eauto.
Qed.

Lemma insert_sorted d a l : non_nan (cost a) -> costs_ok l ->
  StronglySorted (fun x y => before d x y = true) l -> StronglySorted (fun x y => before d x y = true) (insert d a l).
Proof.
  intros Ha Hl Hs. induction l as [|b t IH]; cbn.
  - repeat constructor.
  - inversion Hl as [|? ? Hb Ht]; subst. inversion Hs as [|? ? Hst Hbt]; subst.
    destruct (before d a b) eqn:E.
    + constructor; auto. constructor; auto.
      rewrite Forall_forall in *. intros x Hx. eapply before_trans; eauto.
    + constructor; auto.
      assert (Hba : before d b a = true) by (destruct (before_total d a b Ha Hb); congruence).
      rewrite Forall_forall. intros x Hx.
      apply (Permutation_in _ (Permutation_sym (insert_perm d a t))) in Hx. destruct Hx as [<-|Hx]; auto.
      rewrite Forall_forall in Hbt; auto.
Qed.
Lemma costs_ok_perm l l' : Permutation l l' -> costs_ok l -> costs_ok l'.
Proof. intros P H. unfold costs_ok in *. rewrite Forall_forall in *. intros x Hx. apply H. eapply Permutation_in; [apply Permutation_sym|]; eauto. Qed.
Lemma sort_sorted d l : costs_ok l -> StronglySorted (fun x y => before d x y = true) (sort_by_cost d l).
Proof.
  induction l as [|a t IH]; cbn; intros H; [constructor|]. inversion H; subst.
  apply insert_sorted; auto. eapply costs_ok_perm; [apply sort_perm|]; auto.
Qed.

(* the C16 core: nobody left out of best_agents is strictly better than somebody kept *)
Lemma sorted_split_before {A} (R : A -> A -> Prop) n l : StronglySorted R l ->
  forall x y, In x (firstn n l) -> In y (skipn n l) -> R x y.
Proof.
  revert l. induction n as [|n IH]; intros l Hs x y Hx Hy; cbn in *; [contradiction|].
  destruct l as [|a t]; cbn in *; [contradiction|]. inversion Hs as [|? ? Hst Hat]; subst.
  destruct Hx as [<-|Hx].
  - rewrite Forall_forall in Hat. apply Hat. rewrite <- (firstn_skipn n t). apply in_or_app. right. exact Hy.
  - eapply IH; eauto.
Qed.

Theorem best_optimal n d l : costs_ok l ->
  forall r o, In r (best_agents n d l) -> In o (skipn n (sort_by_cost d l)) -> better d o r = false.
Proof.
  intros Hc r o Hr Ho. pose proof (sorted_split_before _ n _ (sort_sorted d l Hc) r o Hr Ho) as H.
  destruct d; cbn in *; apply negb_true_iff in H; exact H.
Qed.
Print Assumptions best_optimal.
