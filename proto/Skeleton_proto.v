From Coq Require Import List ZArith Bool Lia.
Import ListNotations.

(* Prototype of Skeleton.v: agent-provenance expressions, their nondeterministic semantics,
   and soundness of the decidable conformance predicates. Costs are Z here; the real file uses xnum
   with a NaN-freedom hypothesis. *)
Section Skel.
Variable agent : Type.
Variable cost : agent -> Z.
Variable wf : agent -> Prop.                       (* "is (a copy of) an _init_agent output with H_raw" *)
Variable core_eq : agent -> agent -> Prop.         (* same position, cost, fitness *)
Hypothesis core_eq_wf : forall a b, core_eq a b -> wf a -> wf b.
Hypothesis core_eq_cost : forall a b, core_eq a b -> cost b = cost a.

Inductive gkind := GMin | GGuarded | GOther.
Inductive aexp :=
| ASlot | AInit | AMember
| ACopy (a : aexp)
| AGreedy (a b : aexp) (k : gkind)
| ABest (l : list aexp)
| AAlt (l : list aexp)
| ARaw | AUnknown.

Fixpoint prov (e : aexp) : bool :=
  match e with
  | ASlot | AInit | AMember => true
  | ACopy a => prov a
  | AGreedy a b k => prov a && prov b && match k with GOther => false | _ => true end
  | ABest l => (fix all (l : list aexp) := match l with [] => true | x :: t => prov x && all t end) l
               && match l with [] => false | _ => true end
  | AAlt l => (fix all (l : list aexp) := match l with [] => true | x :: t => prov x && all t end) l
  | ARaw | AUnknown => false
  end.

Fixpoint elit (e : aexp) : bool :=
  match e with
  | ASlot => true
  | ACopy a => elit a
  | AGreedy a b GMin => elit a || elit b
  | AGreedy a b GGuarded => elit a
  | ABest l => (fix any (l : list aexp) := match l with [] => false | x :: t => elit x || any t end) l
  | AAlt l => (fix all (l : list aexp) := match l with [] => true | x :: t => elit x && all t end) l
  | _ => false
  end.

(* semantics: which agents can an expression evaluate to, given the incumbent of the slot and
   the agents currently reachable (population and private containers) *)
Inductive eval (slot : agent) (members : list agent) : aexp -> agent -> Prop :=
| EvSlot : eval slot members ASlot slot
| EvInit a : wf a -> eval slot members AInit a
| EvMember a : In a members -> eval slot members AMember a
| EvCopy e a b : eval slot members e a -> core_eq a b -> eval slot members (ACopy e) b
| EvGreedyTake e1 e2 k a b : eval slot members e1 a -> eval slot members e2 b -> k <> GOther ->
    (cost b < cost a)%Z -> eval slot members (AGreedy e1 e2 k) b
| EvGreedyKeep e1 e2 k a a' b : eval slot members e1 a -> eval slot members e2 b -> k <> GOther ->
    (k = GMin -> ~ (cost b < cost a)%Z) -> core_eq a a' -> eval slot members (AGreedy e1 e2 k) a'
| EvGreedyOther e1 e2 r : eval slot members (AGreedy e1 e2 GOther) r
| EvBest l cands r : evals slot members l cands -> In r cands -> (forall c, In c cands -> (cost r <= cost c)%Z) ->
    eval slot members (ABest l) r
| EvAlt l e a : In e l -> eval slot members e a -> eval slot members (AAlt l) a
| EvRaw a : eval slot members ARaw a
| EvUnknown a : eval slot members AUnknown a
with evals (slot : agent) (members : list agent) : list aexp -> list agent -> Prop :=
| EvsNil : evals slot members [] []
| EvsCons e a l la : eval slot members e a -> evals slot members l la -> evals slot members (e :: l) (a :: la).

Scheme eval_ind2 := Induction for eval Sort Prop
  with evals_ind2 := Induction for evals Sort Prop.
Combined Scheme eval_evals_ind from eval_ind2, evals_ind2.

Definition all_prov := (fix all (l : list aexp) := match l with [] => true | x :: t => prov x && all t end).
Definition any_elit := (fix any (l : list aexp) := match l with [] => false | x :: t => elit x || any t end).
Definition all_elit := (fix all (l : list aexp) := match l with [] => true | x :: t => elit x && all t end).

Lemma all_prov_in l e : all_prov l = true -> In e l -> prov e = true.
Proof. induction l as [|x t IH]; cbn; [tauto|]. intros H [<-|Hin]; apply andb_true_iff in H; tauto. Qed.
Lemma all_elit_in l e : all_elit l = true -> In e l -> elit e = true.
Proof. induction l as [|x t IH]; cbn; [tauto|]. intros H [<-|Hin]; apply andb_true_iff in H; tauto. Qed.

Ltac bsplit := repeat match goal with
  | H : _ && _ = true |- _ => apply andb_true_iff in H; destruct H
  end.

(* --- soundness of provenance --- *)
Theorem prov_sound slot members : wf slot -> Forall wf members ->
  (forall e a, eval slot members e a -> prov e = true -> wf a) /\
  (forall l la, evals slot members l la -> all_prov l = true -> Forall wf la).
Proof.
  intros Hs Hm. pose proof (proj1 (Forall_forall _ _) Hm) as Hm'.
  apply eval_evals_ind; cbn; intros; try congruence; bsplit; fold all_prov in *; auto; try discriminate.
  - eauto using core_eq_wf.
  - eauto using core_eq_wf.
  - match goal with H : all_prov ?l = true -> Forall wf ?c, H1 : all_prov ?l = true, H2 : In ?r ?c |- _ =>
      specialize (H H1); rewrite Forall_forall in H; auto end.
  - match goal with H : prov ?e = true -> wf ?a, H1 : all_prov ?l = true, H2 : In ?e ?l |- _ =>
      apply H; eapply all_prov_in; eauto end.
Qed.

(* --- soundness of per-slot elitism: the result is never worse than the incumbent --- *)
Theorem elit_sound slot members :
  (forall e a, eval slot members e a -> elit e = true -> (cost a <= cost slot)%Z) /\
  (forall l la, evals slot members l la -> any_elit l = true -> exists c, In c la /\ (cost c <= cost slot)%Z).
Proof.
  apply eval_evals_ind; cbn; intros; try congruence; fold any_elit all_elit in *; try lia.
  - (* copy *) match goal with c : core_eq _ _ |- _ => rewrite (core_eq_cost _ _ c) end. auto.
  - (* greedy take *) destruct k; try congruence.
    + match goal with H : _ || _ = true |- _ => apply orb_true_iff in H; destruct H as [E|E] end;
      repeat match goal with H : elit ?e = true -> _, E : elit ?e = true |- _ => specialize (H E) end; lia.
    + repeat match goal with H : elit ?e = true -> _, E : elit ?e = true |- _ => specialize (H E) end; lia.
  - (* greedy keep *) match goal with c : core_eq _ _ |- _ => rewrite (core_eq_cost _ _ c) end.
    destruct k; try congruence.
    + match goal with H : _ || _ = true |- _ => apply orb_true_iff in H; destruct H as [E|E] end;
      repeat match goal with H : elit ?e = true -> _, E : elit ?e = true |- _ => specialize (H E) end; try lia.
      match goal with H : GMin = GMin -> ~ _ |- _ => specialize (H eq_refl) end. lia.
    + auto.
  - (* best *) match goal with H : any_elit ?l = true -> _, E : any_elit ?l = true |- _ => destruct (H E) as (c & Hc & Hle) end.
    match goal with H : forall c, In c _ -> _ |- _ => specialize (H c Hc) end. lia.
  - (* alt *) match goal with H : elit ?e = true -> _ |- _ => apply H end. eapply all_elit_in; eauto.
  - (* evals cons *) match goal with H : _ || _ = true |- _ => apply orb_true_iff in H; destruct H as [E|E] end.
    + eexists; split; [left; reflexivity|auto].
    + match goal with H : any_elit ?l = true -> _ |- _ => destruct (H E) as (c & Hc & Hle) end.
      exists c; split; [right; auto|auto].
Qed.

(* --- one population write of shape WMap: every slot is rebuilt by some alternative --- *)
Definition wmap (alts : list aexp) (members old new : list agent) : Prop :=
  Forall2 (fun o n => exists e, In e alts /\ eval o members e n) old new.

Lemma wmap_length alts members old new : wmap alts members old new -> length new = length old.
Proof. intros H. induction H; cbn; auto. Qed.

Lemma wmap_wf alts members old new : all_prov alts = true -> Forall wf members -> Forall wf old ->
  wmap alts members old new -> Forall wf new.
Proof.
  intros Ha Hm Ho H. induction H as [|o n old new (e & He & Hev) _ IH]; [constructor|].
  inversion Ho; subst. constructor; auto.
  destruct (prov_sound o members) as [P _]; auto. eapply P; eauto. eapply all_prov_in; eauto.
Qed.

Lemma wmap_elit_pointwise alts members old new : all_elit alts = true -> wmap alts members old new ->
  Forall2 (fun o n => (cost n <= cost o)%Z) old new.
Proof.
  intros Ha H. induction H as [|o n old new (e & He & Hev) _ IH]; constructor; auto.
  destruct (elit_sound o members) as [E _]. eapply E; eauto. eapply all_elit_in; eauto.
Qed.

(* the abstraction is tight: an ARaw site admits a non-wf agent *)
Lemma raw_admits_violation slot members bad : ~ wf bad -> exists a, eval slot members ARaw a /\ ~ wf a.
Proof. intros H. exists bad. split; [constructor|auto]. Qed.
End Skel.
Print Assumptions prov_sound.
Print Assumptions elit_sound.
