"""Prototype of T-core: Python ast -> Gallina for a few framework functions (typed, fail-closed)."""
import ast, sys, textwrap

class Unsupported(Exception): pass

# ---- types ----
NAT, F, BOOL, AGENT, DIR = "nat", "F", "bool", "agent", "dir"
def OPT(t): return ("option", t)
def LIST(t): return ("list", t)

class Ctx:
    def __init__(s, attrs, calls):
        s.attrs = attrs      # dotted python path -> (coq text, type)
        s.calls = calls      # python callee text -> handler(args:list[(txt,ty)]) -> (txt, ty)
        s.fresh = 0
    def gensym(s, base):
        s.fresh += 1; return f"{base}{s.fresh}"

def dotted(n):
    if isinstance(n, ast.Name): return n.id
    if isinstance(n, ast.Attribute):
        b = dotted(n.value); return None if b is None else b + "." + n.attr
    return None

def tr_expr(n, env, cx):
    """returns (coq_text, type)"""
    if isinstance(n, ast.Name):
        if n.id in env: return env[n.id]
        raise Unsupported(f"name {n.id}")
    if isinstance(n, ast.Attribute):
        d = dotted(n)
        if d in cx.attrs: return cx.attrs[d]
        if d:
            head, _, attr = d.rpartition(".")
            if head in env and (env[head][1], attr) in cx.attrs:       # projection from a typed local, e.g. early_stopping.min_delta
                txt, ty = cx.attrs[(env[head][1], attr)]
                return (f"({txt} {env[head][0]})", ty)
        raise Unsupported(f"attr {ast.unparse(n)}")
    if isinstance(n, ast.Constant):
        if n.value is None: return ("None", OPT(None))
        if isinstance(n.value, bool): return ("true" if n.value else "false", BOOL)
        if isinstance(n.value, int): return (str(n.value), "intlit")
        raise Unsupported(f"const {n.value!r}")
    if isinstance(n, ast.UnaryOp) and isinstance(n.op, ast.Not):
        t, ty = tr_expr(n.operand, env, cx); assert ty == BOOL; return (f"(negb {t})", BOOL)
    if isinstance(n, ast.UnaryOp) and isinstance(n.op, ast.USub):
        t, ty = tr_expr(n.operand, env, cx)
        if ty == F: return (f"(fopp {t})", F)
        raise Unsupported("usub")
    if isinstance(n, ast.BoolOp):
        parts = [tr_expr(v, env, cx) for v in n.values]
        assert all(ty == BOOL for _, ty in parts)
        op = "andb" if isinstance(n.op, ast.And) else "orb"
        txt = parts[0][0]
        for p, _ in parts[1:]: txt = f"({op} {txt} {p})"
        return (txt, BOOL)
    if isinstance(n, ast.BinOp):
        a, ta = tr_expr(n.left, env, cx); b, tb = tr_expr(n.right, env, cx)
        a, b, ty = unify(a, ta, b, tb)
        if isinstance(n.op, ast.Sub) and ty == F: return (f"(fsub {a} {b})", F)
        if isinstance(n.op, ast.Add) and ty == F: return (f"(fadd {a} {b})", F)
        if isinstance(n.op, ast.Div) and ty == F: return (f"(fdiv {a} {b})", F)
        if isinstance(n.op, ast.Sub) and ty == NAT: return (f"({a} - {b})", NAT)
        raise Unsupported(f"binop {ast.unparse(n)}")
    if isinstance(n, ast.Compare) and len(n.ops) == 1:
        op = n.ops[0]
        if isinstance(op, (ast.Is, ast.IsNot)) and isinstance(n.comparators[0], ast.Constant) and n.comparators[0].value is None:
            a, ta = tr_expr(n.left, env, cx); assert isinstance(ta, tuple) and ta[0] == "option"
            return (f"(is_some {a})" if isinstance(op, ast.IsNot) else f"(negb (is_some {a}))", BOOL)
        a, ta = tr_expr(n.left, env, cx); b, tb = tr_expr(n.comparators[0], env, cx)
        a, b, ty = unify(a, ta, b, tb)
        if ty == F:
            m = {ast.Lt: f"(fltb {a} {b})", ast.LtE: f"(fleb {a} {b})", ast.Gt: f"(fltb {b} {a})", ast.GtE: f"(fleb {b} {a})"}
        elif ty == NAT:
            m = {ast.Lt: f"(Nat.ltb {a} {b})", ast.LtE: f"(Nat.leb {a} {b})", ast.Gt: f"(Nat.ltb {b} {a})", ast.GtE: f"(Nat.leb {b} {a})", ast.Eq: f"(Nat.eqb {a} {b})"}
        elif ty == DIR:
            m = {ast.Eq: f"(dir_eqb {a} {b})"}
        else: raise Unsupported(f"compare at {ty}")
        if type(op) not in m: raise Unsupported(f"cmp {ast.unparse(n)}")
        return (m[type(op)], BOOL)
    if isinstance(n, ast.IfExp):
        c, tc = tr_expr(n.test, env, cx); a, ta = tr_expr(n.body, env, cx); b, tb = tr_expr(n.orelse, env, cx)
        a, b, ty = unify(a, ta, b, tb)
        return (f"(if {c} then {a} else {b})", ty)
    if isinstance(n, ast.Subscript):
        v, tv = tr_expr(n.value, env, cx)
        if isinstance(tv, tuple) and tv[0] == "list" and isinstance(n.slice, ast.Slice):
            lo, hi = n.slice.lower, n.slice.upper
            if lo is None and hi is not None:
                h, th = tr_expr(hi, env, cx); return (f"(firstn {h} {v})", tv)                      # l[:n]
            if hi is None and isinstance(lo, ast.UnaryOp) and isinstance(lo.op, ast.USub):
                k, tk = tr_expr(lo.operand, env, cx); return (f"(lastn {k} {v})", tv)               # l[-p:]
            if hi is None and lo is not None:
                k, tk = tr_expr(lo, env, cx); return (f"(skipn {k} {v})", tv)                       # l[k:]
        if isinstance(tv, tuple) and tv[0] == "list" and isinstance(n.slice, ast.UnaryOp) and ast.unparse(n.slice) == "-1":
            return (f"(last_opt {v})", OPT(tv[1]))
        raise Unsupported(f"subscript {ast.unparse(n)}")
    if isinstance(n, ast.Call):
        f = ast.unparse(n.func)
        if f == "all" and len(n.args) == 1 and isinstance(n.args[0], ast.ListComp) and len(n.args[0].generators) == 1:
            g = n.args[0].generators[0]
            seq, ts = tr_expr(g.iter, env, cx); assert ts[0] == "list" and isinstance(g.target, ast.Name) and not g.ifs
            env2 = dict(env); env2[g.target.id] = (g.target.id, ts[1])
            body, tb = tr_expr(n.args[0].elt, env2, cx); assert tb == BOOL
            return (f"(forallb (fun {g.target.id} => {body}) {seq})", BOOL)
        if f == "len" and len(n.args) == 1:
            v, tv = tr_expr(n.args[0], env, cx); return (f"(length {v})", NAT)
        if f == "abs" and len(n.args) == 1:
            v, tv = tr_expr(n.args[0], env, cx); assert tv == F; return (f"(fabs {v})", F)
        if f in cx.calls:
            args = [tr_expr(a, env, cx) for a in n.args]
            kw = {k.arg: tr_expr(k.value, env, cx) for k in n.keywords}
            return cx.calls[f](args, kw)
        raise Unsupported(f"call {f}")
    raise Unsupported(f"expr {type(n).__name__}: {ast.unparse(n)}")

def unify(a, ta, b, tb):
    if ta == "intlit" and tb == F: return (lit_f(a), b, F)
    if tb == "intlit" and ta == F: return (a, lit_f(b), F)
    if ta == "intlit" and tb in (NAT, "intlit"): return (a, b, NAT)
    if tb == "intlit" and ta == NAT: return (a, b, NAT)
    if ta == tb: return (a, b, ta)
    raise Unsupported(f"unify {ta} {tb}")
def lit_f(a):
    return {"0": "fzero", "1": "fone"}.get(a) or (_ for _ in ()).throw(Unsupported(f"float literal {a}"))

def tr_body(stmts, env, cx, state_updates=None):
    """straight-line bodies with `x = e`, `x |= e`, `if o is not None: <assignments>`, print(...), return e.
       returns coq text of the returned expression wrapped in lets"""
    if not stmts: raise Unsupported("fell off the end")
    st, rest = stmts[0], stmts[1:]
    if isinstance(st, ast.Expr) and isinstance(st.value, ast.Constant): return tr_body(rest, env, cx, state_updates)   # docstring
    if isinstance(st, ast.Expr) and isinstance(st.value, ast.Call) and ast.unparse(st.value.func) == "print":
        return tr_body(rest, env, cx, state_updates)                                                                      # pure output
    if isinstance(st, ast.Return):
        t, ty = tr_expr(st.value, env, cx); return t, ty
    if isinstance(st, ast.Assign) and len(st.targets) == 1:
        tg = st.targets[0]
        if isinstance(tg, ast.Name):
            t, ty = tr_expr(st.value, env, cx)
            env2 = dict(env); env2[tg.id] = (tg.id, ty)
            b, tb = tr_body(rest, env2, cx, state_updates); return (f"let {tg.id} := {t} in\n  {b}", tb)
        if isinstance(tg, ast.Tuple) and isinstance(st.value, ast.Tuple) and len(tg.elts) == len(st.value.elts) and all(isinstance(e, ast.Name) for e in tg.elts):
            vals = [tr_expr(v, env, cx) for v in st.value.elts]
            env2 = dict(env); lets = ""
            for e, (t, ty) in zip(tg.elts, vals): env2[e.id] = (e.id, ty); lets += f"let {e.id} := {t} in\n  "
            b, tb = tr_body(rest, env2, cx, state_updates); return (lets + b, tb)
    if isinstance(st, ast.AugAssign) and isinstance(st.op, ast.BitOr) and isinstance(st.target, ast.Name):
        t, ty = tr_expr(st.value, env, cx); assert ty == BOOL and env[st.target.id][1] == BOOL
        b, tb = tr_body(rest, env, cx, state_updates); return (f"let {st.target.id} := orb {st.target.id} {t} in\n  {b}", tb)
    if isinstance(st, ast.If) and not st.orelse and isinstance(st.test, ast.Compare) and isinstance(st.test.ops[0], ast.IsNot) \
            and isinstance(st.test.left, ast.Name) and isinstance(st.test.comparators[0], ast.Constant) and st.test.comparators[0].value is None:
        # `if o is not None: body` where body only rebinds already-bound locals: becomes a match that rebinds them
        o = st.test.left.id; otxt, oty = env[o]; assert oty[0] == "option"
        assigned = []
        for s2 in st.body:
            if isinstance(s2, ast.AugAssign) and isinstance(s2.target, ast.Name): assigned.append(s2.target.id)
        assigned = list(dict.fromkeys(assigned))
        if len(assigned) != 1: raise Unsupported("if-not-None body must rebind exactly one outer local")
        x = assigned[0]
        v = cx.gensym(o + "_v")
        env_in = dict(env); env_in[o] = (v, oty[1])
        inner, _ = tr_body(st.body + [ast.Return(value=ast.Name(id=x, ctx=ast.Load()))], env_in, cx, state_updates)
        b, tb = tr_body(rest, env, cx, state_updates)
        return (f"let {x} := match {otxt} with Some {v} =>\n      {inner}\n    | None => {x} end in\n  {b}", tb)
    if isinstance(st, ast.If):
        # if c: return a  (else continue)
        if len(st.body) == 1 and isinstance(st.body[0], ast.Return) and not st.orelse:
            c, tc = tr_expr(st.test, env, cx); a, ta = tr_expr(st.body[0].value, env, cx)
            b, tb = tr_body(rest, env, cx, state_updates); a, b, ty = unify(a, ta, b, tb)
            return (f"if {c} then {a} else\n  {b}", ty)
    raise Unsupported(f"stmt {ast.unparse(st)[:80]}")

def find(tree, cls, fn):
    for n in tree.body:
        if cls is None and isinstance(n, ast.FunctionDef) and n.name == fn: return n
        if isinstance(n, ast.ClassDef) and n.name == cls:
            for m in n.body:
                if isinstance(m, ast.FunctionDef) and m.name == fn: return m
    raise Unsupported(f"{cls}.{fn} not found")

def main():
    abstract = ast.parse(open("/repo/pyvolutionary/abstract.py").read())
    helpers = ast.parse(open("/repo/pyvolutionary/helpers.py").read())
    out = []
    # ---- __should_stop__ ----
    attrs = {
        "self._config.fitness_error": ("(fitness_error c)", OPT(F)),
        "self._config.max_cycles": ("(max_cycles c)", NAT),
        "self._config.early_stopping": ("(early c)", OPT("es")),
        "self._current_cycle": ("(cycle s)", NAT),
        "self._error_diffs": ("(diffs s)", LIST(F)),
        "self._errors": ("(errors s)", LIST(F)),
        ("es", "min_delta"): ("min_delta", F), ("es", "patience"): ("patience", NAT),
    }
    cx = Ctx(attrs, {})
    fn = find(abstract, "OptimizationAbstract", "__should_stop__")
    body, ty = tr_body(fn.body, {"current_error": ("current_error", F)}, cx)
    out.append(f"Definition gen_should_stop (c : cfg) (s : st) (current_error : F) : bool :=\n  {body}.")
    # ---- _greedy_select_agent ----
    attrs2 = {"agent_copy.cost": ("(cost agent_copy)", F), "new_agent.cost": ("(cost new_agent)", F), "agent.cost": ("(cost agent)", F)}
    cx2 = Ctx(attrs2, {"agent.model_copy": lambda a, k: ("(copy agent)", AGENT)})
    fn = find(abstract, "OptimizationAbstract", "_greedy_select_agent")
    body, ty = tr_body(fn.body, {"agent": ("agent", AGENT), "new_agent": ("new_agent", AGENT)}, cx2)
    out.append(f"Definition gen_greedy (agent new_agent : agent) : agent :=\n  {body}.")
    # ---- calculate_fitness ----
    cx3 = Ctx({"TaskType.MIN": ("MIN", DIR), "TaskType.MAX": ("MAX", DIR)}, {})
    fn = find(helpers, None, "calculate_fitness")
    body, ty = tr_body(fn.body, {"value": ("value", F), "task_type": ("task_type", DIR)}, cx3)
    out.append(f"Definition gen_fitness (value : F) (task_type : dir) : F :=\n  {body}.")
    return "\n\n".join(out)

if __name__ == "__main__":
    print(main())
