From Coq Require Import List ZArith Bool Lia Permutation Sorted.
Import ListNotations.
Require Import Select_proto.

(* Prototype of Loop.v: run as a function of a deterministic step; C03 (best_solution is the
   optimum of the last generation in the task's direction) and C17 (elitist steps never lose the
   best) for every step function, every number of cycles, both directions. *)

Definition report (d : dir) (a : agent) : agent :=
  match d with MIN => a | MAX => {| aid := aid a; cost := xneg (cost a) |} end.

Fixpoint gens (step : nat -> list agent -> list agent) (k : nat) (n : nat) (pop : list agent) : list (list agent) :=
  match n with 0 => [] | S n' => let pop' := step k pop in pop' :: gens step (S k) n' pop' end.

Record result := { evolution : list (list agent); best_solution : option agent }.

(* internal costs are always minimised; generations and best_solution are sign-restored on the way out *)
Definition run (d : dir) (init : list agent) (step : nat -> list agent -> list agent) (ncycles : nat) : result :=
  let gs := init :: gens step 1 ncycles init in
  let final := last gs init in
  {| evolution := map (map (report d)) gs;
     best_solution := option_map (report d) (hd_error (best_agents 1 MIN final)) |}.

Lemma report_cost_nonnan d a : non_nan (cost a) -> non_nan (cost (report d a)).
Proof. destruct d; cbn; auto. unfold non_nan. destruct (cost a); cbn; congruence. Qed.

Lemma better_report d a b : better d (report d a) (report d b) = better MIN a b.
Proof. destruct d; cbn; auto. apply xneg_ltb. Qed.

Lemma last_map {A B} (f : A -> B) l d : last (map f l) (f d) = f (last l d).
Proof. induction l as [|a t IH]; cbn; auto. destruct t; cbn in *; auto. Qed.

(* ---- C03 ---- *)
Theorem C03_best_is_optimum d init step n :
  let r := run d init step n in
  let final := last (init :: gens step 1 n init) init in
  costs_ok final -> final <> [] ->
  exists b, best_solution r = Some (report d b) /\ In b final
    /\ In (report d b) (last (evolution r) (map (report d) init))
    /\ forall o, In o final -> better d (report d o) (report d b) = false.
Proof.
  cbn zeta. set (final := last (init :: gens step 1 n init) init). intros Hc Hne.
  unfold run. cbn [best_solution evolution]. fold final.
  pose proof (sort_perm MIN final) as P.
  destruct (sort_by_cost MIN final) as [|b t] eqn:Es.
  - apply Permutation_sym, Permutation_nil in P. contradiction.
  - exists b. unfold best_agents. rewrite Es. cbn [firstn hd_error option_map].
    assert (Hb : In b final) by (eapply Permutation_in; [apply Permutation_sym; exact P|left; auto]).
    repeat split; auto.
    + rewrite (last_map (map (report d)) (init :: gens step 1 n init) init). fold final. apply in_map; auto.
    + intros o Ho. rewrite better_report.
      assert (Ho' : In o (b :: t)) by (eapply Permutation_in; [exact P|auto]).
      destruct Ho' as [<-|Ho'].
      * cbn. destruct (cost b); cbn; auto. apply Z.ltb_irrefl.
      * apply (best_optimal 1 MIN final Hc b o).
        -- unfold best_agents. rewrite Es. left; auto.
        -- rewrite Es. cbn. exact Ho'.
Qed.

(* ---- C17 ---- *)
(* "nobody in new is better than everybody in old": new contains an agent at least as good as any old one *)
Definition keeps_best (old new : list agent) : Prop :=
  forall o, In o old -> exists n, In n new /\ xltb (cost o) (cost n) = false.
Definition min_le (l1 l2 : list agent) : Prop :=   (* best of l1 is not worse than best of l2 *)
  forall o, In o l2 -> exists n, In n l1 /\ xltb (cost o) (cost n) = false.

Lemma pointwise_keeps_best old new :
  Forall2 (fun o n => xltb (cost o) (cost n) = false) old new -> keeps_best old new.
Proof.
  induction 1 as [|o n old new Hon _ IH]; intros x Hx; [contradiction|].
  destruct Hx as [<-|Hx]; [exists n; split; [left|]; auto|].
  destruct (IH x Hx) as (m & Hm & Hc). exists m; split; [right|]; auto.
Qed.

Lemma gens_nth step : forall n k pop j, j < n ->
  nth (S j) (pop :: gens step k n pop) [] = step (k + j) (nth j (pop :: gens step k n pop) []).
Proof.
  induction n as [|n IH]; intros k pop j Hj; [lia|]. cbn [gens].
  destruct j as [|j]; cbn [nth].
  - rewrite Nat.add_0_r. reflexivity.
  - replace (k + S j) with (S k + j) by lia. apply (IH (S k) (step k pop) j). lia.
Qed.

Theorem C17_elitist_monotone init step n :
  (forall k pop, keeps_best pop (step k pop)) ->
  forall j, j < n ->
    let gs := init :: gens step 1 n init in
    keeps_best (nth j gs []) (nth (S j) gs []).
Proof.
  intros Hstep j Hj. cbn zeta. rewrite (gens_nth step n 1 init j Hj). apply Hstep.
Qed.

(* in the task's direction on reported costs *)
Corollary C17_reported d old new : keeps_best old new ->
  forall o, In o old -> exists n, In n new /\ better d (report d o) (report d n) = false.
Proof. intros H o Ho. destruct (H o Ho) as (n & Hn & Hc). exists n. split; auto. rewrite better_report. exact Hc. Qed.

Print Assumptions C03_best_is_optimum.
Print Assumptions C17_elitist_monotone.
