import sys; sys.path.insert(0,"/tmp/scratch")
from exp4 import *
import math, collections, traceback
print = builtins.print
BAD = []
def member(x, lbs, ubs):
    return len(x) == len(lbs) and all(isinstance(v, float) and not math.isnan(v) and lb <= v <= ub for v, lb, ub in zip(x, lbs, ubs))
def mktask(kind):
    if kind == "d1":   lbs, ubs = [-3.0], [2.0]
    elif kind == "big": lbs, ubs = [-1e6, 0.0], [1e6, 2e6]
    elif kind == "tiny": lbs, ubs = [-1e-6, 1.0], [1e-6, 1.0 + 1e-6]
    elif kind == "onesided": lbs, ubs = [0.0, 0.0, -7.0], [10.0, 1.0, 0.0]
    elif kind == "d6": lbs, ubs = [-5.0]*6, [5.0]*6
    class T(Task):
        def objective_function(self, x):
            if not member(x, lbs, ubs): BAD.append(list(x))
            return float(sum((xi - 0.1 * (i + 1)) ** 2 for i, xi in enumerate(x)))
    return T, lbs, ubs
def one(args):
    name, kind, minmax, cycles, mult, mode = args
    cf = configs(); cls, cfg0 = cf[name]
    T, lbs, ubs = mktask(kind)
    BAD.clear()
    P = int(cfg0.population_size * mult)
    cfg = cfg0.model_copy(deep=True, update={"fitness_error": None, "max_cycles": cycles, "population_size": P})
    task = T(variables=[ContinuousMultiVariable(name="x", lower_bounds=lbs, upper_bounds=ubs)], seed=11, minmax=minmax)
    res = {"args": args}
    try:
        with contextlib.redirect_stdout(io.StringIO()):
            r = cls(cfg).optimize(task, mode=mode, workers=3)
        f = lambda x: float(sum((xi - 0.1 * (i + 1)) ** 2 for i, xi in enumerate(x)))
        res["pos_ok"] = all(member(a.position, lbs, ubs) for g in r.evolution for a in g.agents) and member(r.best_solution.position, lbs, ubs)
        res["cost_ok"] = all(a.cost == f(a.position) for g in r.evolution for a in g.agents)
        res["fit_ok"] = all(a.fitness == ((1 / (a.cost + 1)) if a.cost >= 0 else (1 + abs(a.cost))) for g in r.evolution for a in g.agents)
        last = r.evolution[-1].agents
        res["best_ok"] = (r.best_solution.cost == (min if minmax == "min" else max)(a.cost for a in last))
        res["sizes"] = sorted(set(len(g.agents) for g in r.evolution)); res["P"] = P
        res["gens"] = len(r.evolution); res["rates"] = len(r.rates)
        res["bad_args"] = len(BAD); res["bad_ex"] = BAD[:1]
    except Exception as e:
        tb = traceback.extract_tb(e.__traceback__); fr = [f for f in tb if "pyvolutionary" in f.filename]
        res["exc"] = f"{type(e).__name__}@{fr[-1].name if fr else '?'}:{str(e)[:60]}"
    return res
if __name__ == "__main__":
    import multiprocessing as mp, itertools
    names = sorted(configs().keys())
    jobs = []
    for n in names:
        for kind in ("d1", "big", "tiny", "onesided", "d6"):
            for minmax in ("min", "max"):
                for cycles, mult in ((1, 1), (2, 1.5), (10, 1)):
                    jobs.append((n, kind, minmax, cycles, mult, "serial"))
        jobs.append((n, "onesided", "min", 3, 1, "thread"))
    with mp.Pool(16) as p:
        out = p.map(one, jobs, chunksize=4)
    json.dump(out, open("/tmp/scratch/exp8.json", "w"), default=str)
    exc = collections.Counter((o["args"][0], o["exc"].split(":")[0]) for o in out if "exc" in o)
    print("jobs", len(out), "exceptions", sum(exc.values()))
    for k, v in sorted(exc.items()): print("  EXC", k, v, sorted(set((o["args"][1], o["args"][3], o["args"][4]) for o in out if "exc" in o and o["args"][0] == k[0] and o["exc"].startswith(k[1])))[:6])
    for key in ("pos_ok", "cost_ok", "fit_ok", "best_ok"):
        bad = collections.Counter(o["args"][0] for o in out if o.get(key) is False)
        print(key, "FAIL", dict(bad))
    ba = collections.Counter(o["args"][0] for o in out if o.get("bad_args"))
    print("bad objective args", dict(ba))
    sz = collections.Counter(o["args"][0] for o in out if "sizes" in o and o["sizes"] != [o["P"]])
    print("size != P", dict(sz))
    gr = collections.Counter(o["args"][0] for o in out if "gens" in o and (o["gens"] != o["args"][3] + 1 or o["rates"] != o["args"][3]))
    print("gens/rates mismatch", dict(gr))
