From Coq Require Import List Arith Bool Lia.
Import ListNotations.

Section Stop.
Variable F : Type.
Variables (fsub : F -> F -> F) (fabs : F -> F) (fltb fleb : F -> F -> bool) (fzero : F).

Record es := { patience : nat; min_delta : F }.
Record cfg := { max_cycles : nat; fitness_error : option F; early : option es }.
Record st := { cycle : nat; errors : list F; diffs : list F }.
Definition init_st := {| cycle := 1; errors := []; diffs := [] |}.

Definition lastn {A} (n : nat) (l : list A) := skipn (length l - n) l.
Definition small_decrease (md d : F) := fltb d fzero && fltb (fabs d) md.

(* imperative model: what the code does *)
Definition should_stop (c : cfg) (s : st) (cur : F) : bool :=
  (max_cycles c <=? cycle s)
  || match early c with Some e => forallb (small_decrease (min_delta e)) (lastn (patience e) (diffs s)) | None => false end
  || match fitness_error c with Some fe => fleb cur fe | None => false end.

Definition error_check (c : cfg) (s : st) (cur : F) : st * bool :=
  let prev := last (errors s) fzero in
  let s' := {| cycle := cycle s; errors := errors s ++ [cur]; diffs := diffs s ++ [fsub cur prev] |} in
  (s', should_stop c s' cur).

Fixpoint loop (fuel : nat) (c : cfg) (r : nat -> F) (s : st) : option st :=
  match fuel with
  | 0 => None
  | S f => let '(s', stop) := error_check c s (r (cycle s)) in
           if stop then Some s'
           else loop f c r {| cycle := S (cycle s'); errors := errors s'; diffs := diffs s' |}
  end.

(* declarative criterion: written from the property text *)
Definition prev_rate (r : nat -> F) (j : nat) : F := match j with 0 | 1 => fzero | _ => r (j - 1) end.
Definition change (r : nat -> F) (j : nat) : F := fsub (r j) (prev_rate r j).
Definition rates_upto (r : nat -> F) (k : nat) := map r (seq 1 k).
Definition changes_upto (r : nat -> F) (k : nat) := map (change r) (seq 1 k).
Definition crit (c : cfg) (r : nat -> F) (k : nat) : bool :=
  (max_cycles c <=? k)
  || match early c with Some e => forallb (small_decrease (min_delta e)) (lastn (patience e) (changes_upto r k)) | None => false end
  || match fitness_error c with Some fe => fleb (r k) fe | None => false end.

Lemma seq_snoc : forall k, seq 1 (S k) = seq 1 k ++ [S k].
Proof. intros. rewrite seq_S. reflexivity. Qed.

Lemma rates_snoc r k : rates_upto r (S k) = rates_upto r k ++ [r (S k)].
Proof. unfold rates_upto. rewrite seq_snoc, map_app. reflexivity. Qed.
Lemma changes_snoc r k : changes_upto r (S k) = changes_upto r k ++ [change r (S k)].
Proof. unfold changes_upto. rewrite seq_snoc, map_app. reflexivity. Qed.

Lemma last_rates r k : last (rates_upto r k) fzero = prev_rate r (S k).
Proof.
  destruct k as [|k]; [reflexivity|].
  rewrite rates_snoc, last_last. unfold prev_rate. cbn. reflexivity.
Qed.

Definition Inv (r : nat -> F) (s : st) : Prop :=
  1 <= cycle s /\ errors s = rates_upto r (cycle s - 1) /\ diffs s = changes_upto r (cycle s - 1).

Lemma step_spec c r s : Inv r s ->
  let '(s', stop) := error_check c s (r (cycle s)) in
  cycle s' = cycle s /\ errors s' = rates_upto r (cycle s) /\ diffs s' = changes_upto r (cycle s)
  /\ stop = crit c r (cycle s).
Proof.
  intros (H1 & He & Hd). unfold error_check. cbn [cycle errors diffs].
  destruct (cycle s) as [|k] eqn:Hk; [lia|]. cbn [Nat.sub] in He, Hd. rewrite Nat.sub_0_r in He, Hd.
  repeat split.
  - rewrite He, rates_snoc. reflexivity.
  - rewrite Hd, changes_snoc, He, last_rates. reflexivity.
  - unfold should_stop, crit. cbn [cycle errors diffs].
    rewrite Hd, He, last_rates, changes_snoc. reflexivity.
Qed.

Theorem loop_stops_at_first c r : 1 <= max_cycles c ->
  forall fuel s, Inv r s -> cycle s + fuel = S (max_cycles c) -> 1 <= fuel ->
    (forall j, 1 <= j < cycle s -> crit c r j = false) ->
  exists s', loop fuel c r s = Some s'
    /\ crit c r (cycle s') = true
    /\ (forall j, 1 <= j < cycle s' -> crit c r j = false)
    /\ cycle s' <= max_cycles c
    /\ errors s' = rates_upto r (cycle s').
Proof.
  intros Hm fuel. induction fuel as [|f IH]; intros s HI Hf H1 Hlt; [lia|].
  cbn [loop]. pose proof (step_spec c r s HI) as Hs.
  destruct (error_check c s (r (cycle s))) as [s' stop]. destruct Hs as (Hc & He & Hd & Hst).
  destruct stop.
  - exists s'. rewrite Hc. repeat split; auto. lia.
  - destruct f as [|f'].
    + (* cycle s = max_cycles: the budget criterion must have fired *)
      exfalso. assert (cycle s = max_cycles c) by lia. symmetry in Hst. unfold crit in Hst.
      rewrite H in Hst. rewrite Nat.leb_refl in Hst. discriminate.
    + apply IH.
      * unfold Inv; cbn [cycle errors diffs]. rewrite Hc. cbn [Nat.sub]. rewrite Nat.sub_0_r. repeat split; auto; lia.
      * cbn [cycle]. lia.
      * lia.
      * cbn [cycle]. intros j Hj. rewrite Hc in Hj. destruct (Nat.eq_dec j (cycle s)); [subst; auto|apply Hlt; lia].
Qed.

Corollary optimize_stop_rule c r : 1 <= max_cycles c ->
  exists s', loop (max_cycles c) c r init_st = Some s'
    /\ crit c r (cycle s') = true
    /\ (forall j, 1 <= j < cycle s' -> crit c r j = false)
    /\ cycle s' <= max_cycles c
    /\ errors s' = rates_upto r (cycle s').
Proof.
  intros Hm. apply loop_stops_at_first; auto.
  all: try (unfold Inv, init_st; cbn; repeat split; auto; intros; lia).
Qed.
Definition gen_should_stop (c : cfg) (s : st) (current_error : F) : bool :=
  let fitness_error := (fitness_error c) in
  let max_cycles := (max_cycles c) in
  let early_stopping := (early c) in
  let cycle := (cycle s) in
  let has_to_stop := (Nat.leb max_cycles cycle) in
  let has_to_stop := match early_stopping with Some early_stopping_v1 =>
      let min_delta := (min_delta early_stopping_v1) in
  let patience := (patience early_stopping_v1) in
  let has_to_stop := orb has_to_stop (forallb (fun diff => (andb (fltb diff fzero) (fltb (fabs diff) min_delta))) (lastn patience (diffs s))) in
  has_to_stop
    | None => has_to_stop end in
  let has_to_stop := match fitness_error with Some fitness_error_v2 =>
      let has_to_stop := orb has_to_stop (fleb current_error fitness_error_v2) in
  has_to_stop
    | None => has_to_stop end in
  has_to_stop.

Lemma stop_bridge c s cur : gen_should_stop c s cur = should_stop c s cur.
Proof.
  unfold gen_should_stop, should_stop.
  destruct (early c), (fitness_error c); cbn; repeat rewrite orb_false_r; try reflexivity;
  repeat rewrite <- orb_assoc; reflexivity.
Qed.
End Stop.
Print Assumptions stop_bridge.
Print Assumptions optimize_stop_rule.
