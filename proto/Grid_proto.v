From Coq Require Import List Arith Lia.
Import ListNotations.

(* Prototype for C19: itertools.product order (last key fastest) vs ParameterGrid.__getitem__'s
   divmod loop over the reversed keys. One sub-grid = the list of value lists in sorted key order. *)
Section Grid.
Variable A : Type.
Variable d : A.

Fixpoint prod (vs : list (list A)) : list (list A) :=
  match vs with
  | [] => [[]]
  | v :: rest => flat_map (fun x => map (cons x) (prod rest)) v
  end.

Fixpoint size (vs : list (list A)) : nat := match vs with [] => 1 | v :: rest => length v * size rest end.

(* __getitem__: keys reversed; ind, offset = divmod(ind, n); out[key] = v[offset] *)
Fixpoint getitem_rev (rvs : list (list A)) (ind : nat) : list A :=
  match rvs with
  | [] => []
  | v :: rest => nth (ind mod length v) v d :: getitem_rev rest (ind / length v)
  end.
Definition getitem (vs : list (list A)) (ind : nat) : list A := rev (getitem_rev (rev vs) ind).

Lemma flat_map_length_uniform {B C} (f : B -> list C) (l : list B) L :
  (forall b, In b l -> length (f b) = L) -> length (flat_map f l) = length l * L.
Proof.
  induction l as [|b t IH]; cbn; intros H; auto.
  rewrite app_length. rewrite IH by (intros; apply H; auto). rewrite H by auto. reflexivity.
Qed.

Lemma prod_length vs : length (prod vs) = size vs.
Proof.
  induction vs as [|v rest IH]; cbn; auto.
  rewrite (flat_map_length_uniform _ _ (size rest)); auto.
  intros; rewrite map_length; auto.
Qed.

Lemma nth_flat_map_uniform {B C} (f : B -> list C) (l : list B) L (db : B) (dc : C) i :
  0 < L -> (forall b, length (f b) = L) -> i < length l * L ->
  nth i (flat_map f l) dc = nth (i mod L) (f (nth (i / L) l db)) dc.
Proof.
  intros HL Hf. revert i. induction l as [|b t IH]; cbn; intros i Hi; [lia|].
  destruct (lt_dec i L) as [Hlt|Hge].
  - rewrite app_nth1 by (rewrite Hf; auto). rewrite Nat.div_small, Nat.mod_small by auto. reflexivity.
  - rewrite app_nth2 by (rewrite Hf; lia). rewrite Hf.
    assert (Hm : i mod L = (i - L) mod L).
    { replace i with ((i - L) + 1 * L) at 1 by lia. apply Nat.mod_add. lia. }
    assert (Hd : i / L = S ((i - L) / L)).
    { replace i with ((i - L) + 1 * L) at 1 by lia. rewrite Nat.div_add by lia. lia. }
    rewrite Hm, Hd. cbn [nth]. apply IH. lia.
Qed.

(* snoc decomposition of the product: the last list varies fastest *)
Lemma prod_snoc vs v : prod (vs ++ [v]) = flat_map (fun p => map (fun x => p ++ [x]) v) (prod vs).
Proof.
  induction vs as [|w rest IH]; cbn.
  - rewrite app_nil_r. induction v as [|x t IHt]; cbn; auto; try (f_equal; exact IHt).
  - rewrite IH. clear IH. induction w as [|x t IHt]; cbn; auto.
    rewrite flat_map_app. rewrite <- IHt. f_equal.
    (* map (cons x) (flat_map g P) = flat_map g' (map (cons x) P) *)
    generalize (prod rest). intros P. induction P as [|p P IHP]; cbn; auto.
    rewrite map_app, IHP. f_equal. rewrite map_map. reflexivity.
Qed.

Definition nonempty (vs : list (list A)) := Forall (fun v => 0 < length v) vs.

Lemma size_app vs ws : size (vs ++ ws) = size vs * size ws.
Proof. induction vs as [|v r IH]; cbn; [lia|]. rewrite IH. lia. Qed.
Lemma size_pos vs : nonempty vs -> 0 < size vs.
Proof. induction 1; cbn; [lia|]. nia. Qed.

Theorem getitem_iter : forall vs, nonempty vs -> forall ind, ind < size vs ->
  nth ind (prod vs) [] = getitem vs ind.
Proof.
  intros vs. induction vs as [|v vs IH] using rev_ind; intros Hne ind Hind.
  - cbn in *. destruct ind; [reflexivity|lia].
  - apply Forall_app in Hne as [Hvs Hv]. inversion Hv as [|? ? Hv0 _]; subst.
    rewrite size_app in Hind. cbn in Hind. rewrite Nat.mul_1_r in Hind.
    rewrite prod_snoc.
    rewrite (nth_flat_map_uniform _ _ (length v) [] []); auto.
    2:{ intros; rewrite map_length; auto. }
    2:{ rewrite prod_length. lia. }
    unfold getitem. rewrite rev_app_distr. cbn.
    assert (Hq : ind / length v < size vs) by (apply Nat.div_lt_upper_bound; lia).
    rewrite IH by auto. unfold getitem.
    (* nth (ind mod n) (map (fun x => p ++ [x]) v) [] = p ++ [nth (ind mod n) v d] *)
    set (p := rev (getitem_rev (rev vs) (ind / length v))).
    assert (Hm : ind mod length v < length v) by (apply Nat.mod_upper_bound; lia).
    rewrite (nth_indep _ [] (p ++ [d])) by (rewrite map_length; auto).
    change (p ++ [d]) with ((fun x => p ++ [x]) d). rewrite map_nth. reflexivity.
Qed.
End Grid.
Print Assumptions getitem_iter.
