"""Prototype of the correspondence pipeline: real ContinuousVariable/DiscreteVariable.correct vs the xnum model in Coq."""
import sys, math, random, subprocess, time, os
sys.path.insert(0, "/repo")
import warnings; warnings.filterwarnings("ignore")
import numpy as np
from fractions import Fraction
from pyvolutionary import ContinuousVariable, DiscreteVariable
S = 2 ** 1074
def emb(v):
    if isinstance(v, (bool, np.bool_)): v = int(v)
    if isinstance(v, (int, np.integer)): return f"(mk ({int(v)}) 0)"
    v = float(v)
    if math.isnan(v): return "XNaN"
    if math.isinf(v): return "XPInf" if v > 0 else "XNInf"
    f, x = math.frexp(v); M = int(f * 2 ** 53); assert M == f * 2 ** 53 and Fraction(M) * Fraction(2) ** (x - 53) == Fraction(v)
    return f"(mk ({M}) ({x - 53}))"
random.seed(int(os.environ.get("VERIF_SEED", "1")))
def rfloat():
    k = random.random()
    if k < 0.1: return random.choice([0.0, -0.0, 5e-324, -5e-324, 1.7976931348623157e308, -1.7976931348623157e308, float("inf"), float("-inf")])
    if k < 0.2: return float(random.randint(-5, 5))
    if k < 0.6: return random.uniform(-10, 10)
    return math.ldexp(random.uniform(-1, 1), random.randint(-1000, 1000))
cases = []
for _ in range(2000):
    lo, hi = sorted([rfloat(), rfloat()])
    if not (lo < hi) or math.isinf(lo) or math.isinf(hi): continue
    v = random.choice([rfloat(), lo, hi, np.nextafter(lo, -np.inf), np.nextafter(hi, np.inf), random.uniform(lo, hi) if hi - lo < 1e300 else lo])
    out = ContinuousVariable(name="x", lower_bound=lo, upper_bound=hi).correct(v)
    cases.append(f"(CC {emb(lo)} {emb(hi)} {emb(v)} {emb(out)})")
for _ in range(1000):
    n = random.randint(1, 6)
    v = random.choice([rfloat(), random.randint(-3, 8), random.uniform(-1, n + 1), np.int64(random.randint(0, n)), float(n - 1), n - 1 + 0.999])
    if isinstance(v, float) and abs(v) > 1e300 and not math.isinf(v): pass
    out = DiscreteVariable(name="d", choices=list(range(n))).correct(v)
    assert type(out) is int
    cases.append(f"(DC {n}%nat {emb(v)} {emb(out)})")
src = """From Coq Require Import ZArith List Bool.
Import ListNotations. Open Scope Z_scope.
Inductive xnum := XNaN | XNInf | XFin (z : Z) | XPInf.
Definition S : Z := 2 ^ 1074.
Definition mk (m e : Z) : xnum := XFin (Z.shiftl m (e + 1074)).
Definition xltb (a b : xnum) : bool := match a, b with
  | XNaN, _ | _, XNaN => false | XNInf, XNInf => false | XNInf, _ => true | _, XNInf => false
  | XFin x, XFin y => x <? y | XFin _, XPInf => true | XPInf, _ => false end.
Definition xeqb (a b : xnum) : bool := match a, b with
  | XNInf, XNInf | XPInf, XPInf => true | XFin x, XFin y => x =? y | _, _ => false end.
(* np.clip(v, lo, hi) = minimum(maximum(v, lo), hi), NaN propagates *)
Definition xmax a b := match a, b with XNaN, _ | _, XNaN => XNaN | _, _ => if xltb a b then b else a end.
Definition xmin a b := match a, b with XNaN, _ | _, XNaN => XNaN | _, _ => if xltb b a then b else a end.
Definition xclip v lo hi := xmin (xmax v lo) hi.
Definition xtrunc v := match v with XFin z => Some (XFin ((Z.quot z S) * S)) | _ => None end.
Inductive case := CC (lo hi v out : xnum) | DC (n : nat) (v out : xnum).
Definition ok (c : case) : bool := match c with
  | CC lo hi v out => xeqb (xclip v lo hi) out
  | DC n v out => match xtrunc (xclip v (XFin 0) (XFin ((Z.of_nat n - 1) * S))) with Some r => xeqb r out | None => false end
  end.
Definition cases : list case := [
""" + ";\n".join(cases) + """
].
Eval vm_compute in (length (filter ok cases), length cases).
"""
os.makedirs("/tmp/scratch/coqt", exist_ok=True)
open("/tmp/scratch/coqt/Cases.v", "w").write(src)
print("cases", len(cases), "file KB", len(src) // 1024)
t = time.time()
r = subprocess.run(["coqc", "Cases.v"], cwd="/tmp/scratch/coqt", capture_output=True, text=True, timeout=600)
print(r.stdout[-300:], r.stderr[-500:], "coqc s", round(time.time() - t, 1))
