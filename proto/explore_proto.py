import sys, os, importlib, inspect, glob, math, warnings, json, traceback
warnings.filterwarnings("ignore")
sys.path.insert(0, "/repo")
import numpy as np
np.seterr(all="ignore")
import pyvolutionary as pv
from pyvolutionary.abstract import OptimizationAbstract
from pyvolutionary import Task, ContinuousMultiVariable, TaskType

def configs():
    out = {}
    for f in sorted(glob.glob("/repo/tests/algorithms/test_*.py")):
        modname = "tests.algorithms." + os.path.basename(f)[:-3]
        m = importlib.import_module(modname)
        fx = getattr(m, "optimization_config", None)
        if fx is None: 
            print("no fixture", modname); continue
        fn = getattr(fx, "__wrapped__", None) or fx.__pytest_wrapped__.obj
        cfg = fn()
        # find optimizer class
        for n, o in vars(m).items():
            if inspect.isclass(o) and issubclass(o, OptimizationAbstract) and o is not OptimizationAbstract:
                out[n] = (o, cfg)
    return out

class Rec(Task):
    def objective_function(self, x):
        bad = (len(x) != 3) or any((not isinstance(v, float)) or math.isnan(v) or v < lb or v > ub for v, lb, ub in zip(x, LB, UB))
        if bad:
            BAD.append(list(x))
        CALLS[0] += 1
        return float(sum((xi-0.3) ** 2 for xi in x))
BAD = []; CALLS=[0]
LB=[0.0,-5.0,0.0]; UB=[10.0,0.0,4.0]

if __name__ == "__main__":
    cfgs = configs()
    print(len(cfgs))
    res = {}
    for name, (cls, cfg) in cfgs.items():
        BAD.clear(); CALLS[0]=0
        task = Rec(variables=[ContinuousMultiVariable(name="x", lower_bounds=LB, upper_bounds=UB)])
        try:
            np.random.seed(1)
            r = cls(cfg.model_copy(deep=True)).optimize(task)
            sizes = sorted(set(len(p.agents) for p in r.evolution))
            allpos_ok = all(all(lb <= v <= ub for v, lb, ub in zip(a.position, LB, UB)) for p in r.evolution for a in p.agents)
            cost_ok = all(abs(a.cost - float(sum((xi-0.3)**2 for xi in a.position))) < 1e-9 for p in r.evolution for a in p.agents)
            bests = [min(a.cost for a in p.agents) for p in r.evolution]
            mono = all(b2 <= b1 + 1e-12 for b1, b2 in zip(bests, bests[1:]))
            res[name] = dict(ok=True, calls=CALLS[0], bad=len(BAD), badex=BAD[:1], sizes=sizes, pop=cfg.population_size, gens=len(r.evolution), pos_ok=allpos_ok, cost_ok=cost_ok, mono=mono)
        except Exception as e:
            res[name] = dict(ok=False, err=repr(e)[:200], tb=traceback.format_exc().splitlines()[-3:])
    for k, v in res.items():
        print(k, json.dumps(v, default=str))
