From Coq Require Import List Arith Lia Permutation Sorted Bool.
Import ListNotations.

(* Prototype for C13 (PermutationVariable): argsort over nat keys (the real file uses xnum keys;
   only the order matters). Shows: argsort is a permutation of the indices; on a permutation of
   0..n-1 it is the inverse; argsort∘argsort is NOT idempotent-compatible (witness) while the
   rank transform argsort∘argsort fixes every permutation. *)

(* stable insertion sort of (key, index) pairs by key *)
Fixpoint ins (a : nat * nat) (l : list (nat * nat)) : list (nat * nat) :=
  match l with
  | [] => [a]
  | b :: t => if fst a <=? fst b then a :: l else b :: ins a t
  end.
Definition sort_pairs (l : list (nat * nat)) := fold_right ins [] l.
Definition argsort (v : list nat) : list nat := map snd (sort_pairs (combine v (seq 0 (length v)))).

Lemma ins_perm a l : Permutation (a :: l) (ins a l).
Proof. induction l as [|b t IH]; cbn; auto. destruct (fst a <=? fst b); auto. rewrite perm_swap. constructor; auto. Qed.
Lemma sort_pairs_perm l : Permutation l (sort_pairs l).
Proof. induction l as [|a t IH]; cbn; auto. rewrite <- ins_perm. constructor; auto. Qed.

Lemma ins_sorted a l : StronglySorted (fun x y => fst x <= fst y) l -> StronglySorted (fun x y => fst x <= fst y) (ins a l).
Proof.
  induction l as [|b t IH]; cbn; intros Hs; [repeat constructor|].
  inversion Hs as [|? ? Ht Hb]; subst. destruct (Nat.leb_spec (fst a) (fst b)).
  - constructor; auto. constructor; [lia|]. rewrite Forall_forall in *. intros x Hx. specialize (Hb x Hx). lia.
  - constructor; auto. rewrite Forall_forall in *. intros x Hx.
    apply (Permutation_in _ (Permutation_sym (ins_perm a t))) in Hx. destruct Hx as [<-|Hx]; [lia|auto].
Qed.
Lemma sort_pairs_sorted l : StronglySorted (fun x y => fst x <= fst y) (sort_pairs l).
Proof. induction l; cbn; [constructor|apply ins_sorted; auto]. Qed.

(* --- argsort is a permutation of the indices (membership law for VPerm) --- *)
Lemma snd_combine_seq (v : list nat) : map snd (combine v (seq 0 (length v))) = seq 0 (length v).
Proof.
  generalize 0. induction v as [|x t IH]; cbn; intros s; auto. f_equal. apply IH.
Qed.
Theorem argsort_perm v : Permutation (argsort v) (seq 0 (length v)).
Proof.
  unfold argsort. rewrite <- (snd_combine_seq v) at 2. apply Permutation_map. apply Permutation_sym, sort_pairs_perm.
Qed.
Lemma argsort_length v : length (argsort v) = length v.
Proof. rewrite (Permutation_length (argsort_perm v)), seq_length. reflexivity. Qed.

(* --- keys read through argsort are sorted --- *)
Lemma combine_nth_pair (v : list nat) : forall p, In p (combine v (seq 0 (length v))) -> fst p = nth (snd p) v 0.
Proof.
  intros p Hp. assert (H : forall s, In p (combine v (seq s (length v))) -> s <= snd p /\ fst p = nth (snd p - s) v 0).
  { clear Hp. induction v as [|x t IH]; cbn; intros s Hin; [contradiction|]. destruct Hin as [<-|Hin]; cbn.
    - rewrite Nat.sub_diag. auto.
    - destruct (IH (S s) Hin) as [Hle Heq]. split; [lia|]. rewrite Heq.
      replace (snd p - s) with (S (snd p - S s)) by lia. reflexivity. }
  destruct (H 0 Hp) as [_ E]. rewrite Nat.sub_0_r in E. exact E.
Qed.
Theorem argsort_sorted v : StronglySorted le (map (fun i => nth i v 0) (argsort v)).
Proof.
  unfold argsort. rewrite map_map.
  assert (Hin : forall p, In p (sort_pairs (combine v (seq 0 (length v)))) -> fst p = nth (snd p) v 0).
  { intros p Hp. apply combine_nth_pair. eapply Permutation_in; [apply Permutation_sym, sort_pairs_perm|exact Hp]. }
  pose proof (sort_pairs_sorted (combine v (seq 0 (length v)))) as Hs.
  induction Hs as [|a l Hl IH Ha]; cbn; [constructor|].
  constructor.
  - apply IH. intros p Hp. apply Hin. right; auto.
  - rewrite Forall_forall in *. intros x Hx. apply in_map_iff in Hx as (p & <- & Hp).
    rewrite <- (Hin a) by (left; auto). rewrite <- (Hin p) by (right; auto). apply Ha; auto.
Qed.

(* --- two sorted permutations of each other are equal --- *)
Lemma sorted_perm_eq (l1 l2 : list nat) : StronglySorted le l1 -> StronglySorted le l2 -> Permutation l1 l2 -> l1 = l2.
Proof.
  revert l2. induction l1 as [|a t IH]; intros l2 H1 H2 P.
  - apply Permutation_nil in P. auto.
  - destruct l2 as [|b u]; [apply Permutation_sym, Permutation_nil in P; discriminate|].
    inversion H1 as [|? ? Ht Ha]; inversion H2 as [|? ? Hu Hb]; subst.
    assert (a = b).
    { assert (In a (b :: u)) by (eapply Permutation_in; [exact P|left; auto]).
      assert (In b (a :: t)) by (eapply Permutation_in; [apply Permutation_sym; exact P|left; auto]).
      rewrite Forall_forall in Ha, Hb. destruct H as [->|Hin]; auto. destruct H0 as [->|Hin']; auto.
      specialize (Ha b Hin'). specialize (Hb a Hin). lia. }
    subst b. f_equal. apply IH; auto. eapply Permutation_cons_inv; eauto.
Qed.
Lemma seq_sorted s n : StronglySorted le (seq s n).
Proof.
  revert s. induction n as [|n IH]; cbn; intros s; constructor; auto.
  rewrite Forall_forall. intros x Hx. apply in_seq in Hx. lia.
Qed.

Definition is_perm (p : list nat) := Permutation p (seq 0 (length p)).

(* on a permutation, reading p through argsort p gives the identity: argsort p is the inverse *)
Theorem argsort_inverse p : is_perm p -> map (fun i => nth i p 0) (argsort p) = seq 0 (length p).
Proof.
  intros Hp. apply sorted_perm_eq; [apply argsort_sorted|apply seq_sorted|].
  (* map (nth · p) (argsort p) ~ map (nth · p) (seq 0 n) = p ~ seq 0 n *)
  transitivity (map (fun i => nth i p 0) (seq 0 (length p))).
  - apply Permutation_map, argsort_perm.
  - assert (E : forall s (q : list nat), map (fun i => nth (i - s) q 0) (seq s (length q)) = q).
    { intros s q. revert s. induction q as [|x t IH]; cbn; intros s; auto. rewrite Nat.sub_diag. f_equal.
      rewrite <- (IH (S s)) at 2. apply map_ext_in. intros i Hi. apply in_seq in Hi.
      replace (i - s) with (S (i - S s)) by lia. reflexivity. }
    specialize (E 0 p).
    assert (E' : map (fun i => nth i p 0) (seq 0 (length p)) = p).
    { etransitivity; [|exact E]. apply map_ext. intros; rewrite Nat.sub_0_r; reflexivity. }
    rewrite E'. exact Hp.
Qed.

Lemma nth_map_lt {A B} (f : A -> B) l i da db : i < length l -> nth i (map f l) db = f (nth i l da).
Proof. revert i. induction l; cbn; intros i Hi; [lia|]. destruct i; auto. apply IHl. lia. Qed.

(* the rank transform fixes every permutation: the law needed once correct = argsort∘argsort *)
Theorem rank_fixes_perm p : is_perm p -> argsort (argsort p) = p.
Proof.
  intros Hp. set (q := argsort p). set (r := argsort q).
  assert (Hq : is_perm q). { unfold is_perm, q. rewrite argsort_length. apply argsort_perm. }
  pose proof (argsort_inverse p Hp) as H1. fold q in H1.
  pose proof (argsort_inverse q Hq) as H2. fold r in H2.
  assert (Lq : length q = length p) by apply argsort_length.
  assert (Lr : length r = length p) by (unfold r; rewrite argsort_length; auto).
  apply nth_ext with (d := 0) (d' := 0); [lia|]. intros k Hk. rewrite Lr in Hk.
  (* p[q[j]] = j  and  q[r[k]] = k *)
  assert (A1 : forall j, j < length p -> nth (nth j q 0) p 0 = j).
  { intros j Hj. rewrite <- (nth_map_lt (fun i => nth i p 0) q j 0 0) by lia. rewrite H1. rewrite seq_nth; auto. }
  assert (A2 : nth (nth k r 0) q 0 = k).
  { rewrite <- (nth_map_lt (fun i => nth i q 0) r k 0 0) by lia. rewrite H2, Lq. rewrite seq_nth; auto. }
  assert (Hr : nth k r 0 < length p).
  { assert (In (nth k r 0) r) by (apply nth_In; lia).
    assert (Pr : Permutation r (seq 0 (length q))) by apply argsort_perm.
    eapply Permutation_in in H; [|exact Pr]. apply in_seq in H. lia. }
  specialize (A1 (nth k r 0) Hr). rewrite A2 in A1. symmetry. exact A1.
Qed.

(* the pinned tree's correct = argsort is not idempotent *)
Example argsort_not_idempotent : exists v, argsort (argsort v) <> argsort v.
Proof. exists [1; 2; 0]. vm_compute. discriminate. Qed.
Print Assumptions rank_fixes_perm.
