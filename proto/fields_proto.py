"""Prototype of the def-use (stale read) analysis for C08/C18 and config/task writes (C09), entropy (C07), ctor deref (C18)."""
import ast, glob, os, sys
ROOT = "/repo/pyvolutionary"
BASE_ASSIGNED_IN_PROLOGUE = {"_task", "_population", "_best_agent", "_worst_agent"}   # by optimize() before use (mode/workers treated as inputs)
BASE_LOW_INPUTS = {"_config", "_debug", "_mode", "_workers", "EPS"}
MUTATORS = {"append", "extend", "insert", "pop", "remove", "clear", "sort", "reverse", "update", "add", "discard", "setdefault", "popitem"}

def self_attr(n):
    """return attr name if n is self.<attr> (possibly deeper: self.a.b -> 'a')"""
    while isinstance(n, (ast.Attribute, ast.Subscript)):
        if isinstance(n, ast.Attribute) and isinstance(n.value, ast.Name) and n.value.id == "self":
            return n.attr
        n = n.value
    return None

class Flow:
    """must-def / use-before-def over self.<field> along a method, inlining self.method() calls and nested defs when called."""
    def __init__(s, methods):
        s.methods = methods; s.stale = set(); s.cfg_writes = []; s.task_writes = []; s.entropy = []
    def run_method(s, name, defs, local_fns=None, depth=0):
        if name not in s.methods or depth > 8: return defs
        return s.block(s.methods[name].body, set(defs), {}, depth)
    def uses_in_expr(s, e, defs, fns, depth):
        # order: evaluate sub-expressions; calls to self.m() / local fn() are inlined
        for n in ast.walk(e):
            if isinstance(n, ast.Call):
                f = n.func
                if isinstance(f, ast.Attribute) and isinstance(f.value, ast.Name) and f.value.id == "self" and f.attr in s.methods and f.attr not in ("_init_agent",):
                    defs |= (s.block(s.methods[f.attr].body, set(defs), {}, depth + 1) - defs) if depth < 8 else set()
                elif isinstance(f, ast.Attribute) and isinstance(f.value, ast.Name) and f.value.id == "self" and f.attr == "_init_agent" and "_init_agent" in s.methods and depth < 8:
                    s.block(s.methods["_init_agent"].body, set(defs), {}, depth + 1)
                elif isinstance(f, ast.Name) and f.id in fns and depth < 8:
                    s.block(fns[f.id].body, set(defs), dict(fns), depth + 1)   # conservative: its defs are may-defs (ignored)
                # mutating call on a self field = read+write
                if isinstance(f, ast.Attribute) and f.attr in MUTATORS:
                    a = self_attr(f.value)
                    if a is not None:
                        tgt = f.value
                        if isinstance(tgt, ast.Attribute) and isinstance(tgt.value, ast.Name) and tgt.value.id == "self":
                            pass
                        s.note_use(a, defs, n)
                        if a == "_config": s.cfg_writes.append(ast.unparse(n)[:80])
                        if a == "_task": s.task_writes.append(ast.unparse(n)[:80])
                # entropy
                src = ast.unparse(f)
                if src.startswith("random.") or src in ("time.time", "os.urandom", "uuid.uuid4") or "default_rng" in src or "RandomState" in src or src in ("id", "hash"):
                    s.entropy.append(src)
                if isinstance(f, ast.Name) and f.id == "get_partner_index": s.entropy.append("helpers.get_partner_index->random.randint")
            if isinstance(n, ast.Attribute) and isinstance(n.ctx, ast.Load) and isinstance(n.value, ast.Name) and n.value.id == "self":
                s.note_use(n.attr, defs, n)
            if isinstance(n, ast.Lambda): pass
        return defs
    def note_use(s, a, defs, node):
        if a in s.methods or a in BASE_LOW_INPUTS or a.startswith("__") and a.endswith("__"): return
        if a not in defs: s.stale.add(a)
    def store(s, t, defs, aug=False):
        # returns field name definitely (re)defined by this store, or None
        if isinstance(t, ast.Attribute) and isinstance(t.value, ast.Name) and t.value.id == "self":
            return t.attr
        a = self_attr(t)
        if a is not None:
            # self.a.b = ... or self.a[i] = ...  : partial write = read+write of a
            s.note_use(a, defs, t)
            if a == "_config": s.cfg_writes.append(ast.unparse(t)[:80])
            if a == "_task": s.task_writes.append(ast.unparse(t)[:80])
        return None
    def block(s, body, defs, fns, depth):
        fns = dict(fns)
        for st in body:
            if isinstance(st, ast.FunctionDef): fns[st.name] = st; continue
            if isinstance(st, ast.Assign):
                defs = s.uses_in_expr(st.value, defs, fns, depth)
                for t in st.targets:
                    for tt in (t.elts if isinstance(t, (ast.Tuple, ast.List)) else [t]):
                        d = s.store(tt, defs)
                        if d: defs = defs | {d}
            elif isinstance(st, ast.AnnAssign):
                if st.value is not None:
                    defs = s.uses_in_expr(st.value, defs, fns, depth)
                    d = s.store(st.target, defs)
                    if d: defs = defs | {d}
            elif isinstance(st, ast.AugAssign):
                defs = s.uses_in_expr(st.value, defs, fns, depth)
                a = self_attr(st.target)
                if a is not None:
                    s.note_use(a, defs, st)
                    if a == "_config": s.cfg_writes.append(ast.unparse(st)[:80])
                    if a == "_task": s.task_writes.append(ast.unparse(st)[:80])
            elif isinstance(st, ast.If):
                defs = s.uses_in_expr(st.test, defs, fns, depth)
                d1 = s.block(st.body, set(defs), fns, depth); d2 = s.block(st.orelse, set(defs), fns, depth)
                defs = d1 & d2
            elif isinstance(st, (ast.For, ast.While)):
                if isinstance(st, ast.For): defs = s.uses_in_expr(st.iter, defs, fns, depth)
                else: defs = s.uses_in_expr(st.test, defs, fns, depth)
                s.block(st.body, set(defs), fns, depth)       # may execute zero times: defs unchanged
            elif isinstance(st, ast.Return):
                if st.value is not None: defs = s.uses_in_expr(st.value, defs, fns, depth)
            elif isinstance(st, ast.Expr):
                defs = s.uses_in_expr(st.value, defs, fns, depth)
            elif isinstance(st, ast.With):
                defs = s.block(st.body, defs, fns, depth)
            else:
                for n in ast.walk(st):
                    if isinstance(n, ast.expr): defs = s.uses_in_expr(n, defs, fns, depth); break
        return defs

def analyse(cls):
    methods = {n.name: n for n in cls.body if isinstance(n, ast.FunctionDef)}
    fl = Flow(methods)
    defs = set(BASE_ASSIGNED_IN_PROLOGUE)
    # fields assigned in __init__ and never stored anywhere else are constants (inputs)
    ctor_fields = set(); other_stores = set()
    for name, m in methods.items():
        for n in ast.walk(m):
            tgt = None
            if isinstance(n, (ast.Assign, ast.AnnAssign, ast.AugAssign)):
                ts = n.targets if isinstance(n, ast.Assign) else [n.target]
                for t in ts:
                    for tt in (t.elts if isinstance(t, (ast.Tuple, ast.List)) else [t]):
                        a = self_attr(tt)
                        if a: (ctor_fields if name == "__init__" else other_stores).add(a)
            if isinstance(n, ast.Call) and isinstance(n.func, ast.Attribute) and n.func.attr in MUTATORS:
                a = self_attr(n.func.value)
                if a and name != "__init__": other_stores.add(a)
    constants = ctor_fields - other_stores
    defs |= constants
    # per-run path in schema order (base optimize(): before_initialization, _init_population, special, after_initialization, loop)
    for hook in ("before_initialization", "_init_population"):
        defs = fl.run_method(hook, defs)
    defs |= {"_population", "_best_agent", "_worst_agent"}
    defs = fl.run_method("after_initialization", defs)
    d1 = fl.run_method("optimization_step", defs)
    fl.run_method("optimization_step", d1)     # second iteration sees the first's defs
    # ctor config deref
    ctor_deref = []
    if "__init__" in methods:
        for n in ast.walk(methods["__init__"]):
            if isinstance(n, ast.Attribute) and isinstance(n.ctx, ast.Load):
                v = n.value
                if (isinstance(v, ast.Attribute) and isinstance(v.value, ast.Name) and v.value.id == "self" and v.attr == "_config") or (isinstance(v, ast.Name) and v.id == "config"):
                    ctor_deref.append(ast.unparse(n))
    # canonical set_config
    sc = methods.get("set_config_parameters")
    canon = bool(sc and len(sc.body) == 1 and isinstance(sc.body[0], ast.Assign) and ast.unparse(sc.body[0].targets[0]) == "self._config"
                 and isinstance(sc.body[0].value, ast.Call) and len(sc.body[0].value.keywords) == 1 and sc.body[0].value.keywords[0].arg is None
                 and ast.unparse(sc.body[0].value.keywords[0].value) == "parameters")
    return dict(stale=sorted(fl.stale), cfg_writes=fl.cfg_writes, task_writes=fl.task_writes, entropy=sorted(set(fl.entropy)), ctor_deref=ctor_deref, canon=canon)

if __name__ == "__main__":
    for f in sorted(glob.glob(ROOT + "/*/*.py")):
        if f.endswith(("__init__.py", "models.py", "classes.py")): continue
        t = ast.parse(open(f).read())
        for c in [n for n in t.body if isinstance(n, ast.ClassDef)]:
            r = analyse(c)
            flags = {k: v for k, v in r.items() if v and k != "canon"}
            if not r["canon"]: flags["canon"] = False
            if flags: print(c.name, flags)
