From Coq Require Import List Bool Arith Lia.
Import ListNotations.

(* Prototype of Lifecycle.v's dependency theorem: a call is a sequence of ops; each op writes
   arbitrary functions of the values it reads; if every read is an input or was written earlier
   in the same call, the outcome depends on the inputs only. *)
Section Dep.
Variable loc : Type.
Variable loc_eqb : loc -> loc -> bool.
Hypothesis loc_eqb_spec : forall a b, reflect (a = b) (loc_eqb a b).
Variable value : Type.

Definition store := loc -> value.
Record op := { reads : list loc; writes : list loc; f : list value -> loc -> value }.

Definition memb (l : loc) (X : list loc) := existsb (loc_eqb l) X.
Lemma memb_In l X : memb l X = true <-> In l X.
Proof.
  unfold memb. rewrite existsb_exists. split.
  - intros (x & Hx & E). destruct (loc_eqb_spec l x); [subst; auto|discriminate].
  - intros H. exists l. split; auto. destruct (loc_eqb_spec l l); auto.
Qed.

Definition exec_op (o : op) (s : store) : store :=
  fun l => if memb l (writes o) then f o (map s (reads o)) l else s l.
Definition exec (p : list op) (s : store) : store := fold_left (fun s o => exec_op o s) p s.

Definition agree_on (X : list loc) (s1 s2 : store) := forall l, In l X -> s1 l = s2 l.
Definition inclb (A B : list loc) := forallb (fun a => memb a B) A.

Fixpoint well_defined (defd : list loc) (p : list op) : bool :=
  match p with
  | [] => true
  | o :: p' => inclb (reads o) defd && well_defined (writes o ++ defd) p'
  end.
Fixpoint defined_after (defd : list loc) (p : list op) : list loc :=
  match p with [] => defd | o :: p' => defined_after (writes o ++ defd) p' end.

Lemma agree_map X s1 s2 R : agree_on X s1 s2 -> inclb R X = true -> map s1 R = map s2 R.
Proof.
  intros Ha Hi. apply map_ext_in. intros a Hin. apply Ha.
  unfold inclb in Hi. rewrite forallb_forall in Hi. apply memb_In. auto.
Qed.

Lemma exec_op_agree o X s1 s2 : agree_on X s1 s2 -> inclb (reads o) X = true ->
  agree_on (writes o ++ X) (exec_op o s1) (exec_op o s2).
Proof.
  intros Ha Hi l Hl. unfold exec_op. rewrite (agree_map X s1 s2 (reads o) Ha Hi).
  destruct (memb l (writes o)) eqn:E; auto.
  apply in_app_or in Hl. destruct Hl as [Hl|Hl]; auto.
  apply memb_In in Hl. congruence.
Qed.

Theorem dep_theorem p : forall defd s1 s2, well_defined defd p = true -> agree_on defd s1 s2 ->
  agree_on (defined_after defd p) (exec p s1) (exec p s2).
Proof.
  induction p as [|o p IH]; cbn; intros defd s1 s2 Hw Ha; auto.
  apply andb_true_iff in Hw as [Hr Hw]. apply IH; auto. apply exec_op_agree; auto.
Qed.

(* the loop: a body that is well defined once stays well defined for any number of iterations *)
Lemma inclb_mono A B C : inclb A B = true -> (forall x, In x B -> In x C) -> inclb A C = true.
Proof.
  unfold inclb. rewrite !forallb_forall. intros H HBC a Ha. apply memb_In. apply HBC. apply memb_In. auto.
Qed.
Lemma well_defined_mono p : forall D D', (forall x, In x D -> In x D') -> well_defined D p = true -> well_defined D' p = true.
Proof.
  induction p as [|o p IH]; cbn; intros D D' H Hw; auto.
  apply andb_true_iff in Hw as [Hr Hw]. apply andb_true_iff. split.
  - eapply inclb_mono; eauto.
  - eapply IH; [|eauto]. intros x Hx. apply in_app_or in Hx. apply in_or_app. destruct Hx; auto.
Qed.
Lemma defined_after_incl p : forall D x, In x D -> In x (defined_after D p).
Proof. induction p as [|o p IH]; cbn; intros; auto. apply IH. apply in_or_app; auto. Qed.
Lemma well_defined_app p q : forall D, well_defined D p = true -> well_defined (defined_after D p) q = true ->
  well_defined D (p ++ q) = true.
Proof.
  induction p as [|o p IH]; cbn; intros D Hp Hq; auto.
  apply andb_true_iff in Hp as [Hr Hp]. apply andb_true_iff; split; auto.
Qed.
Fixpoint iterate (n : nat) (body : list op) : list op := match n with 0 => [] | S k => body ++ iterate k body end.
Theorem loop_well_defined body : forall n D, well_defined D body = true -> well_defined D (iterate n body) = true.
Proof.
  induction n as [|n IH]; cbn; intros D H; auto.
  apply well_defined_app; auto. apply IH. eapply well_defined_mono; [|exact H]. apply defined_after_incl.
Qed.

(* tightness: an op that reads an undefined location can make two runs differ *)
Theorem stale_read_admits_difference (l r : loc) (v1 v2 : value) : v1 <> v2 ->
  exists (o : op) (s1 s2 : store), agree_on [] s1 s2 /\ In l (reads o) /\ exec_op o s1 r <> exec_op o s2 r.
Proof.
  intros Hv. exists {| reads := [l]; writes := [r]; f := fun vs _ => hd v1 vs |}, (fun _ => v1), (fun _ => v2).
  split; [intros x []|]. split; [left; auto|]. unfold exec_op; cbn.
  destruct (loc_eqb_spec r r); cbn; congruence.
Qed.
End Dep.
Print Assumptions dep_theorem.
Print Assumptions loop_well_defined.
