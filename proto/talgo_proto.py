"""Prototype of T-algo: abstract interpretation of agent-valued expressions (design de-risking only)."""
import ast, glob, os, sys, json

ROOT = "/repo/pyvolutionary"

# ---------- abstract values ----------
class AV: pass
class Ag(AV):
    def __init__(s, e): s.e = e           # aexp tree (tuple form)
    def __repr__(s): return f"Ag{s.e}"
class AgList(AV):
    def __init__(s, elems, kind="list"): s.elems = elems; s.kind = kind   # elems: list of aexp alternatives
    def __repr__(s): return f"AgList{s.elems}"
class Tup(AV):
    def __init__(s, items): s.items = items
    def __repr__(s): return f"Tup{s.items}"
class Fn(AV):
    def __init__(s, node, env): s.node = node; s.env = env
class Other(AV):
    def __repr__(s): return "Other"
OTHER = Other()

def alt(es):
    flat = []
    for e in es:
        if e[0] == "AAlt": flat += list(e[1])
        else: flat.append(e)
    uniq = []
    for e in flat:
        if e not in uniq: uniq.append(e)
    return uniq[0] if len(uniq) == 1 else ("AAlt", tuple(uniq))

def join(a, b):
    if isinstance(a, Ag) and isinstance(b, Ag): return Ag(alt([a.e, b.e]))
    if isinstance(a, AgList) and isinstance(b, AgList): return AgList([alt(a.elems + b.elems)])
    if isinstance(a, Tup) and isinstance(b, Tup) and len(a.items) == len(b.items):
        return Tup([join(x, y) for x, y in zip(a.items, b.items)])
    if isinstance(a, Other) and isinstance(b, Other): return OTHER
    if isinstance(a, Fn) and isinstance(b, Fn): return a
    # agent joined with None/other (e.g. Optional[Agent]) : keep the agent part but mark
    if isinstance(a, Ag) and isinstance(b, Other): return a
    if isinstance(b, Ag) and isinstance(a, Other): return b
    if isinstance(a, AgList) and isinstance(b, Other): return a
    if isinstance(b, AgList) and isinstance(a, Other): return b
    return OTHER

class Ret(Exception): pass

class Interp:
    def __init__(s, cls, agent_classes, module_funcs):
        s.cls = cls; s.agent_classes = agent_classes
        s.methods = {n.name: n for n in cls.body if isinstance(n, ast.FunctionDef)}
        s.module_funcs = module_funcs
        s.popwrites = []; s.sites = []; s.depth = 0
        s.greedy_override = "_greedy_select_agent" in s.methods
        s.init_override = "_init_agent" in s.methods

    # ----- expressions -----
    def is_self_attr(s, n, attr=None):
        return isinstance(n, ast.Attribute) and isinstance(n.value, ast.Name) and n.value.id == "self" and (attr is None or n.attr == attr)

    def ev(s, n, env):
        if isinstance(n, ast.Name):
            return env.get(n.id, OTHER)
        if isinstance(n, ast.Attribute):
            if s.is_self_attr(n):
                if n.attr == "_population": return AgList([("AMember",)], "pop")
                if n.attr in ("_best_agent", "_worst_agent"): return Ag(("AMember",))
                key = "self." + n.attr
                return env.get(key, OTHER)
            return OTHER
        if isinstance(n, ast.Subscript):
            v = s.ev(n.value, env)
            if isinstance(v, AgList):
                if isinstance(n.slice, ast.Slice): return AgList(v.elems)
                return Ag(alt(v.elems))
            if isinstance(v, Tup) and isinstance(n.slice, ast.Constant) and isinstance(n.slice.value, int) and n.slice.value < len(v.items):
                return v.items[n.slice.value]
            return OTHER
        if isinstance(n, ast.IfExp):
            return join(s.ev(n.body, env), s.ev(n.orelse, env))
        if isinstance(n, (ast.Tuple, ast.List)):
            items = [s.ev(e, env) for e in n.elts]
            if isinstance(n, ast.List) and items and all(isinstance(i, Ag) for i in items):
                return AgList([i.e for i in items])
            return Tup(items)
        if isinstance(n, ast.BinOp) and isinstance(n.op, ast.Add):
            a, b = s.ev(n.left, env), s.ev(n.right, env)
            if isinstance(a, AgList) and isinstance(b, AgList): return AgList([alt(a.elems + b.elems)])
            return OTHER
        if isinstance(n, ast.ListComp):
            return s.ev_comp(n, env)
        if isinstance(n, ast.NamedExpr):
            v = s.ev(n.value, env); env[n.target.id] = v; return v
        if isinstance(n, ast.Call):
            return s.ev_call(n, env)
        if isinstance(n, ast.Lambda):
            return Fn(n, dict(env))
        return OTHER

    def ev_comp(s, n, env):
        env2 = dict(env)
        for g in n.generators:
            it = g.iter
            s.bind_iter(g.target, it, env2)
        v = s.ev(n.elt, env2)
        if isinstance(v, Ag): return AgList([v.e])
        if isinstance(v, Tup): return Tup([AgList([i.e]) if isinstance(i, Ag) else OTHER for i in v.items])  # list of tuples -> tuple of lists (for zip(*...))
        if isinstance(v, AgList): return AgList(v.elems, "nested")
        return OTHER

    def bind_iter(s, target, it, env, slot=False):
        """bind loop targets for `for target in it`"""
        def elem(v):
            if isinstance(v, AgList): return Ag(("ASlot",) if (slot and v.kind == "pop") else alt(v.elems))
            return OTHER
        if isinstance(it, ast.Call) and isinstance(it.func, ast.Name) and it.func.id == "enumerate":
            v = s.ev(it.args[0], env)
            if isinstance(target, ast.Tuple) and len(target.elts) == 2:
                s.assign(target.elts[0], OTHER, env); s.assign(target.elts[1], elem(v), env); return
        if isinstance(it, ast.Call) and isinstance(it.func, ast.Name) and it.func.id == "zip":
            vs = [elem(s.ev(a, env)) for a in it.args]
            if isinstance(target, ast.Tuple) and len(target.elts) == len(vs):
                for t, v in zip(target.elts, vs): s.assign(t, v, env)
                return
        v = s.ev(it, env)
        if isinstance(v, AgList) and v.kind == "nested":
            s.assign(target, AgList(v.elems), env); return
        s.assign(target, elem(v), env)

    def assign(s, t, v, env):
        if isinstance(t, ast.Name): env[t.id] = v
        elif isinstance(t, (ast.Tuple, ast.List)):
            if isinstance(v, Tup) and len(v.items) == len(t.elts):
                for a, b in zip(t.elts, v.items): s.assign(a, b, env)
            elif isinstance(v, AgList):
                for a in t.elts: s.assign(a, Ag(alt(v.elems)), env)
            else:
                for a in t.elts: s.assign(a, OTHER, env)
        elif isinstance(t, ast.Attribute) and s.is_self_attr(t):
            if t.attr == "_population":
                s.popwrites.append(("assign", v, t.lineno))
            else:
                env["self." + t.attr] = v
        elif isinstance(t, ast.Subscript):
            base = t.value
            if s.is_self_attr(base, "_population"):
                s.popwrites.append(("setitem", v, t.lineno))
            else:
                old = s.ev(base, env)
                if isinstance(old, AgList) and isinstance(v, Ag):
                    s.assign(base, AgList([alt(old.elems + [v.e])]), env)
                elif isinstance(old, AgList) and isinstance(v, AgList):
                    s.assign(base, AgList([alt(old.elems + v.elems)], old.kind), env)

    def call_fn(s, fn, args, kwargs, env):
        node = fn.node
        if s.depth > 12: return OTHER
        env2 = dict(fn.env)
        # closures see the *current* values of enclosing names too
        for k, v in env.items():
            if k not in env2 or k.startswith("self."): env2[k] = v
        params = [a.arg for a in node.args.args]
        if params and params[0] == "self": params = params[1:]
        for p in params: env2[p] = OTHER
        for p, a in zip(params, args): env2[p] = a
        for k, a in kwargs.items(): env2[k] = a
        if isinstance(node, ast.Lambda):
            return s.ev(node.body, env2)
        s.depth += 1
        rets = []
        s.exec_block(node.body, env2, rets)
        s.depth -= 1
        # propagate self.* field updates back
        for k, v in env2.items():
            if k.startswith("self."): env[k] = v
        if not rets: return OTHER
        r = rets[0]
        for x in rets[1:]: r = join(r, x)
        return r

    def ev_call(s, n, env):
        f = n.func
        args = [s.ev(a, env) for a in n.args if not isinstance(a, ast.Starred)]
        star = [a for a in n.args if isinstance(a, ast.Starred)]
        kwargs = {k.arg: s.ev(k.value, env) for k in n.keywords if k.arg}
        dstar = [k.value for k in n.keywords if k.arg is None]
        # self.method(...)
        if isinstance(f, ast.Attribute) and isinstance(f.value, ast.Name) and f.value.id == "self":
            m = f.attr
            if m == "_init_agent":
                if s.init_override and s.depth < 12 and not getattr(s, "_in_init", False):
                    s._in_init = True
                    r = s.call_fn(Fn(s.methods["_init_agent"], {}), args, kwargs, env)
                    s._in_init = False
                    return r
                return Ag(("AInit",))
            if m == "_greedy_select_agent":
                a = args[0] if len(args) > 0 else kwargs.get("agent", OTHER)
                b = args[1] if len(args) > 1 else kwargs.get("new_agent", OTHER)
                if isinstance(a, Ag) and isinstance(b, Ag):
                    kind = "ovr" if s.greedy_override else "base"
                    return Ag(("AGreedy", a.e, b.e, kind))
                return Ag(("AUnknown", "greedy-args"))
            if m == "_generate_agents": return AgList([("AInit",)])
            if m == "_generate_group_population": return AgList([("ACopy", ("AMember",))], "nested")
            if m in ("_extend_and_trim_population", "_replace_and_trim_population", "_greedy_select_population"):
                s.popwrites.append((m, args[0] if args else OTHER, n.lineno)); return OTHER
            if m in s.methods:
                return s.call_fn(Fn(s.methods[m], {}), args, kwargs, env)
            return OTHER
        # super()._init_agent(...)
        if isinstance(f, ast.Attribute) and f.attr == "_init_agent" and isinstance(f.value, ast.Call) and isinstance(f.value.func, ast.Name) and f.value.func.id == "super":
            return Ag(("AInit",))
        # methods on values
        if isinstance(f, ast.Attribute):
            base = s.ev(f.value, env)
            if f.attr in ("model_copy", "copy"):
                if isinstance(base, Ag):
                    upd = [k for k in n.keywords if k.arg == "update"]
                    core = False
                    if upd and isinstance(upd[0].value, ast.Dict):
                        core = any(isinstance(k, ast.Constant) and k.value in ("position", "cost", "fitness") for k in upd[0].value.keys)
                    return Ag(("ACopy", base.e) if not core else ("ARaw", "copy-update-core"))
                if isinstance(base, AgList): return AgList(base.elems, base.kind)
            if f.attr == "model_dump" and isinstance(base, Ag): return Tup([base])  # marker: dump of agent
            if f.attr in ("append",) and isinstance(base, AgList) and args and isinstance(args[0], Ag):
                if s.is_self_attr(f.value, "_population"): s.popwrites.append(("append", args[0], n.lineno))
                else: s.assign(f.value, AgList([alt(base.elems + [args[0].e])], base.kind), env)
                return OTHER
            if f.attr in ("extend",) and isinstance(base, AgList) and args and isinstance(args[0], AgList):
                if s.is_self_attr(f.value, "_population"): s.popwrites.append(("extend", args[0], n.lineno))
                else: s.assign(f.value, AgList([alt(base.elems + args[0].elems)], base.kind), env)
                return OTHER
            if f.attr == "pop" and isinstance(base, AgList):
                if s.is_self_attr(f.value, "_population"): s.popwrites.append(("pop", OTHER, n.lineno))
                return Ag(alt(base.elems))
            if f.attr in ("values", "items") : return base if isinstance(base, AgList) else OTHER
            if f.attr == "from_iterable":
                v = args[0] if args else OTHER
                return AgList(v.elems) if isinstance(v, AgList) else OTHER
            return OTHER
        if isinstance(f, ast.Name):
            name = f.id
            if name in s.agent_classes:
                # Cls(**X.model_dump(), extras)
                if dstar and len(dstar) == 1:
                    d = s.ev(dstar[0], env)
                    extras_core = any(k in ("position", "cost", "fitness") for k in kwargs)
                    if isinstance(d, Tup) and len(d.items) == 1 and isinstance(d.items[0], Ag) and not extras_core:
                        inner = d.items[0].e
                        e = inner if inner[0] == "AInit" else ("ACopy", inner)
                        s.sites.append(e); return Ag(e)
                s.sites.append(("ARaw", name)); return Ag(("ARaw", name))
            if name in ("best_agent", "worst_agent"):
                v = args[0] if args else OTHER
                return Ag(("ABest", tuple(v.elems))) if (isinstance(v, AgList) and name == "best_agent") else (Ag(alt(v.elems)) if isinstance(v, AgList) else OTHER)
            if name in ("best_agents", "worst_agents", "sort_by_cost", "sort_and_trim", "sorted", "list", "find_centers"):
                v = args[0] if args else OTHER
                if isinstance(v, AgList): return AgList(v.elems, v.kind if name == "list" else "list")
                return OTHER
            if name == "special_agents":
                v = args[0] if args else OTHER
                return Tup([AgList(v.elems), AgList(v.elems)]) if isinstance(v, AgList) else OTHER
            if name == "map":
                fn = args[0] if args else OTHER
                seq = args[1] if len(args) > 1 else OTHER
                if isinstance(fn, Fn) and isinstance(seq, AgList):
                    el = Ag(("ASlot",) if seq.kind == "pop" else alt(seq.elems))
                    r = s.call_fn(fn, [el], {}, env)
                    if isinstance(r, Ag): return AgList([r.e])
                    if isinstance(r, AgList): return AgList(r.elems, "nested")
                    return OTHER
                if isinstance(fn, Fn) and isinstance(seq, Tup):   # map(lambda x: list(x), zip(*[...]))
                    return Tup([s.call_fn(fn, [i], {}, env) for i in seq.items])
                return OTHER
            if name == "zip" and star:
                v = s.ev(star[0].value, env)
                return v if isinstance(v, Tup) else OTHER
            if name in env and isinstance(env[name], Fn):
                return s.call_fn(env[name], args, kwargs, env)
            if name in s.module_funcs:
                return s.call_fn(Fn(s.module_funcs[name], {}), args, kwargs, env)
            return OTHER
        return OTHER

    # ----- statements -----
    def exec_block(s, body, env, rets):
        for st in body:
            if s.exec_stmt(st, env, rets): return True
        return False

    def exec_stmt(s, st, env, rets):
        if isinstance(st, ast.FunctionDef):
            env[st.name] = Fn(st, env); return False
        if isinstance(st, ast.Return):
            rets.append(s.ev(st.value, env) if st.value is not None else OTHER); return True
        if isinstance(st, ast.Assign):
            # special-case WMap detection for self._population = [f(..) for .. in [enumerate](self._population)]
            v = None
            if len(st.targets) == 1 and isinstance(st.value, ast.ListComp) and len(st.value.generators) == 1:
                g = st.value.generators[0]
                env2 = dict(env)
                s.bind_iter(g.target, g.iter, env2, slot=True)
                el = s.ev(st.value.elt, env2)
                for k, val in env2.items():
                    if k.startswith("self."): env[k] = val
                if isinstance(el, Ag): v = AgList([el.e], "map" if s.iter_is_pop(g.iter) else "list")
                elif isinstance(el, Tup): v = Tup([AgList([i.e], "map" if s.iter_is_pop(g.iter) else "list") if isinstance(i, Ag) else OTHER for i in el.items])
                elif isinstance(el, AgList): v = AgList(el.elems, "nested")
            if v is None: v = s.ev(st.value, env)
            for t in st.targets: s.assign(t, v, env)
            return False
        if isinstance(st, ast.AnnAssign):
            if st.value is not None: s.assign(st.target, s.ev(st.value, env), env)
            return False
        if isinstance(st, ast.AugAssign):
            if s.is_self_attr(st.target, "_population"):
                s.popwrites.append(("augassign", s.ev(st.value, env), st.lineno))
            else:
                old = s.ev(st.target, env); new = s.ev(st.value, env)
                if isinstance(old, AgList) and isinstance(new, AgList):
                    s.assign(st.target, AgList([alt(old.elems + new.elems)], old.kind), env)
            return False
        if isinstance(st, ast.Expr):
            s.ev(st.value, env); return False
        if isinstance(st, ast.If):
            e1, e2 = dict(env), dict(env)
            r1 = s.exec_block(st.body, e1, rets)
            r2 = s.exec_block(st.orelse, e2, rets)
            if r1 and r2: return True
            src = [e for e, r in ((e1, r1), (e2, r2)) if not r]
            keys = set().union(*[set(e) for e in src])
            for k in keys:
                vals = [e.get(k, OTHER) for e in src]
                v = vals[0]
                for x in vals[1:]: v = join(v, x)
                env[k] = v
            return False
        if isinstance(st, (ast.For, ast.While)):
            for _ in range(2):
                e1 = dict(env)
                if isinstance(st, ast.For): s.bind_iter(st.target, st.iter, e1)
                s.exec_block(st.body, e1, rets)
                for k in set(e1) | set(env):
                    env[k] = join(env.get(k, OTHER), e1.get(k, OTHER)) if k in env and k in e1 else e1.get(k, env.get(k))
            return False
        if isinstance(st, ast.With):
            return s.exec_block(st.body, env, rets)
        return False

    def iter_is_pop(s, it):
        if isinstance(it, ast.Call) and isinstance(it.func, ast.Name) and it.func.id == "enumerate": it = it.args[0]
        if isinstance(it, ast.Call) and isinstance(it.func, ast.Name) and it.func.id == "zip": it = it.args[0]
        return s.is_self_attr(it, "_population")

# ---------- classification helpers ----------
def elit(e):
    k = e[0]
    if k == "ASlot": return True
    if k == "AGreedy": return elit(e[1]) or elit(e[2])
    if k == "ACopy": return elit(e[1])
    if k == "ABest": return any(elit(x) for x in e[1])
    if k == "AAlt": return all(elit(x) for x in e[1])
    return False
def prov(e):
    k = e[0]
    if k in ("ASlot", "AInit", "AMember"): return True
    if k == "AGreedy": return prov(e[1]) and prov(e[2])
    if k == "ACopy": return prov(e[1])
    if k in ("ABest", "AAlt"): return all(prov(x) for x in e[1])
    return False

def agent_classes_of(pkgdir):
    names = {"Agent"}
    for f in glob.glob(pkgdir + "/*.py"):
        t = ast.parse(open(f).read())
        changed = True
        while changed:
            changed = False
            for n in ast.walk(t):
                if isinstance(n, ast.ClassDef) and n.name not in names:
                    if any(isinstance(b, ast.Name) and b.id in names for b in n.bases):
                        names.add(n.name); changed = True
    return names

def main():
    res = {}
    for f in sorted(glob.glob(ROOT + "/*/*.py")):
        if f.endswith("__init__.py") or f.endswith("models.py") or f.endswith("classes.py"): continue
        t = ast.parse(open(f).read())
        pk = os.path.dirname(f)
        ac = agent_classes_of(pk)
        mf = {}
        for c in [n for n in t.body if isinstance(n, ast.ClassDef)]:
            it = Interp(c, ac, mf)
            env = {}
            for hook in ("after_initialization",):
                if hook in it.methods:
                    it.call_fn(Fn(it.methods[hook], {}), [], {}, env)
            it.popwrites.clear()
            it.call_fn(Fn(it.methods["optimization_step"], {}), [], {}, env)
            pw = []
            for kind, v, line in it.popwrites:
                if isinstance(v, AgList): pw.append((kind, v.kind, [(elit(e), prov(e), e) for e in v.elems], line))
                elif isinstance(v, Ag): pw.append((kind, "agent", [(elit(v.e), prov(v.e), v.e)], line))
                else: pw.append((kind, "?", repr(v), line))
            res[c.name] = pw
    return res

if __name__ == "__main__":
    res = main()
    nel = 0
    for name, pw in res.items():
        ok_elit = all((k in ("_extend_and_trim_population", "_greedy_select_population")) or (k == "assign" and vk == "map" and all(x[0] for x in els)) for k, vk, els, _ in pw if isinstance(els, list)) and all(isinstance(els, list) for _, _, els, _ in pw) and len(pw) > 0
        ok_prov = all(isinstance(els, list) and all(x[1] for x in els) for _, _, els, _ in pw) and len(pw) > 0
        nel += ok_elit
        print(f"{name:45s} elitist={ok_elit!s:5s} prov={ok_prov!s:5s}")
        if "-v" in sys.argv or not ok_prov:
            for k, vk, els, line in pw:
                print("      ", line, k, vk, els if not isinstance(els, list) else [(a, b, str(c)[:110]) for a, b, c in els])
    print("elitist count", nel, "of", len(res))
