import sys, warnings, traceback, io, contextlib, json, copy, os, random
warnings.filterwarnings("ignore")
sys.path.insert(0,"/repo"); sys.path.insert(0,"/tmp/scratch")
import numpy as np; np.seterr(all="ignore")
_orig_seed = np.random.seed
def _seed(s=None):
    return _orig_seed(int(s)) if s is not None else _orig_seed(None)
np.random.seed = _seed
from explore import configs
from pyvolutionary import *
from pyvolutionary.abstract import OptimizationAbstract
import builtins
_print = builtins.print
class F(Task):
    def objective_function(self, x): return float(sum((xi-0.3)**2 for xi in x) + 0.5*x[0])
class NegF(Task):
    def objective_function(self, x): return -float(sum((xi-0.3)**2 for xi in x) + 0.5*x[0])
LBS=[-5,-3,0.5]; UBS=[5,4,6.0]
def mk(cls=F, seed=7, minmax="min"):
    return cls(variables=[ContinuousMultiVariable(name="x", lower_bounds=LBS, upper_bounds=UBS)], seed=seed, minmax=minmax)
def sig(r):
    return json.dumps([[ (a.position, a.cost, a.fitness) for a in g.agents] for g in r.evolution] + [r.rates, r.best_solution.position, r.best_solution.cost], default=float)
def run(o, task):
    with contextlib.redirect_stdout(io.StringIO()):
        return o.optimize(task)
def reset_base(o):
    o._current_cycle = 1; o._errors = []; o._error_diffs = []
def one(name):
    cf = configs(); cls, cfg0 = cf[name]
    out = {"name": name}
    cfg = cfg0.model_copy(deep=True, update={"fitness_error": None, "max_cycles": 6})
    try:
        # C07
        r1 = run(cls(cfg.model_copy(deep=True)), mk()); random.seed(1); np.random.random(5)
        r2 = run(cls(cfg.model_copy(deep=True)), mk())
        out["C07_same"] = sig(r1) == sig(r2)
        # C09
        c = cfg.model_copy(deep=True); before = c.model_dump(); t = mk(); tb = t.model_dump()
        run(cls(c), t); out["C09_cfg_same"] = (c.model_dump() == before); out["C09_task_same"] = (t.model_dump() == tb)
        if not out["C09_cfg_same"]:
            out["C09_diff"] = {k: (before[k], c.model_dump()[k]) for k in before if before[k] != c.model_dump()[k]}
        # C08 private leak: run twice on one instance with base reset, compare 2nd to fresh
        o = cls(cfg.model_copy(deep=True)); run(o, mk()); reset_base(o); rb = run(o, mk())
        fresh = run(cls(cfg.model_copy(deep=True)), mk())
        out["C08_private_ok"] = sig(rb) == sig(fresh)
        # C08 pinned (no reset)
        o = cls(cfg.model_copy(deep=True)); run(o, mk()); rb2 = run(o, mk())
        out["C08_pinned_gens"] = (len(rb2.evolution), len(rb2.rates))
        # C12
        ra = run(cls(cfg.model_copy(deep=True)), mk(NegF, minmax="max")); rbn = run(cls(cfg.model_copy(deep=True)), mk(F, minmax="min"))
        same_pos = all([a.position for a in g1.agents] == [a.position for a in g2.agents] for g1, g2 in zip(ra.evolution, rbn.evolution)) and len(ra.evolution)==len(rbn.evolution)
        neg_cost = all([a.cost for a in g1.agents] == [-a.cost for a in g2.agents] for g1, g2 in zip(ra.evolution, rbn.evolution))
        out["C12_dual"] = bool(same_pos and neg_cost)
        # C17 monotone (min and max)
        mono = True
        for sd in range(4):
            r = run(cls(cfg.model_copy(deep=True, update={"max_cycles": 12})), mk(seed=sd))
            b = [min(a.cost for a in g.agents) for g in r.evolution]
            mono &= all(y <= x for x, y in zip(b, b[1:]))
        out["C17_mono"] = mono
        # C03 
        r = r1; last = r.evolution[-1].agents
        out["C03_ok"] = (r.best_solution.cost == min(a.cost for a in last)) and any(a.position == r.best_solution.position and a.cost == r.best_solution.cost for a in last)
        rm = ra; last = rm.evolution[-1].agents
        out["C03_max_ok"] = (rm.best_solution.cost == max(a.cost for a in last))
        # C10 sizes at 1x,1.5x,2x,3x
        sizes = {}
        for mult in (1, 1.5, 2, 3):
            P = int(cfg.population_size * mult)
            try:
                c = cfg.model_copy(deep=True, update={"population_size": P, "max_cycles": 3})
                r = run(cls(c), mk())
                sizes[P] = sorted(set(len(g.agents) for g in r.evolution))
            except Exception as e:
                sizes[P] = f"{type(e).__name__}"
        out["C10_sizes"] = sizes
        # C15 fidelity: deep snapshots
        snaps = []
        class W(cls):
            def optimization_step(self_inner):
                super().optimization_step()
        o = cls(cfg.model_copy(deep=True))
        orig_step = o.optimization_step
        def step():
            orig_step(); snaps.append([(list(map(lambda v: copy.deepcopy(v), a.position)), a.cost, a.fitness) for a in o._population])
        o.optimization_step = step
        r = run(o, mk())
        ok = True
        for k, sn in enumerate(snaps):
            g = r.evolution[k+1].agents
            ok &= [(a.position, a.cost, a.fitness) for a in g] == [(p, c, f) for p, c, f in sn]
        out["C15_faithful"] = ok
        # C18
        try:
            e = cls(); out["C18_ctor"] = True
            try: run(e, mk()); out["C18_noconf"] = "no error"
            except ValueError: out["C18_noconf"] = "ValueError"
            except Exception as ex: out["C18_noconf"] = type(ex).__name__
            e.set_config_parameters(cfg.model_dump())
            out["C18_cfg_eq"] = (e.configuration == type(cfg)(**cfg.model_dump()))
            rs = run(e, mk()); out["C18_run_eq"] = sig(rs) == sig(fresh)
        except Exception as ex:
            out["C18_ctor"] = f"{type(ex).__name__}: {ex}"[:80]
    except Exception as e:
        out["err"] = traceback.format_exc().splitlines()[-3:]
    return out
if __name__ == "__main__":
    import multiprocessing as mp
    names = sorted(configs().keys())
    with mp.Pool(16) as p:
        res = p.map(one, names)
    json.dump(res, open("/tmp/scratch/exp4.json", "w"), indent=1, default=str)
    keys = ["C07_same","C09_cfg_same","C09_task_same","C08_private_ok","C12_dual","C17_mono","C03_ok","C03_max_ok","C15_faithful","C18_ctor","C18_noconf","C18_cfg_eq","C18_run_eq"]
    for k in keys:
        bad = [r["name"] for r in res if r.get(k) not in (True, "ValueError")]
        _print(k, "FAIL:", len(bad), bad)
    _print("errors:", [(r["name"], r["err"]) for r in res if "err" in r])
    for r in res:
        s = r.get("C10_sizes", {})
        if any(v != [int(P)] for P, v in s.items()): _print("C10", r["name"], s)
    _print("C08 pinned:", set(tuple(r.get("C08_pinned_gens", ())) for r in res))
