#!/bin/sh
# tools/seedrun.sh <seed-dir> <name> <check ids...> — for `vp run --with-repo`: confirm one seeded change in isolation (this snapshot of /verif, the run's own snapshot of /repo)
cd "$(dirname "$0")/.." || exit 2
export PV_REPO=${VP_RUN_REPO:-/repo}
./setup.sh > setup.log 2>&1 || { echo "setup failed"; tail -5 setup.log; exit 2; }
exec /venv/bin/python tools/seedtest.py "$@"
