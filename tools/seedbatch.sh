#!/bin/sh
# tools/seedbatch.sh "<dir> <name> <checks...>" ... — several seeded changes one after the other in one isolated vp run (setup once)
cd "$(dirname "$0")/.." || exit 2
export PV_REPO=${VP_RUN_REPO:-/repo}
./setup.sh > setup.log 2>&1 || { echo "setup failed"; tail -5 setup.log; exit 2; }
for spec in "$@"; do
  echo "=== $spec"
  /venv/bin/python tools/seedtest.py $spec 2>&1 | grep -v "^   exit$" | cut -c1-260
done
