#!/venv/bin/python
"""tools/fingerprints.py — records the syntax hash of every optimizer package (expectations.json: src_fingerprints). Run by hand on the unchanged tree only (after a
fix: commit that touches an optimizer); never at check time. The checks aim their source-directed search (pv/hot.py) at optimizers whose hash differs."""
import json, sys
from pathlib import Path
sys.path[:0] = ["/verif", "/repo"]
from pv import talgo
sks, missing = talgo.analyse(Path("/repo"))
e = json.load(open("/verif/expectations.json"))
e["src_fingerprints"] = {s["name"]: s["src_fingerprint"] for s in sks}
json.dump(e, open("/verif/expectations.json", "w"), indent=1)
print(len(e["src_fingerprints"]), "optimizer packages fingerprinted; missing:", missing)
