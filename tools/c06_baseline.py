#!/venv/bin/python
"""tools/c06_baseline.py — (re)computes the works-today baseline of (optimizer, encoding) pairs for C06's integer-coded census
(expectations.json: c06_int_works) and prints one deterministic replay job per failure key of the strict continuous census.
Run by hand on the unchanged tree only; never at check time."""
import collections, json, random, sys
sys.path[:0] = ["/verif", "/repo"]
from pv import census, search
from pv.props import c06
names = search.all_names()
pairs = collections.defaultdict(lambda: [0, 0])
for seed in (11, 12, 13):
    r = random.Random(seed)
    for o in search.run_jobs(census.int_jobs(r, names, 8), procs=16):
        p = pairs[f"{o['job']['opt']}|{o['job']['encoding']}"]; p[1] += 1
        if o["ok"] and not census.result_problems(o): p[0] += 1
works = sorted(n for n, (ok, n_) in pairs.items() if ok == n_)
print("pairs:", len(pairs), "always working:", len(works), "never:", sum(1 for ok, _ in pairs.values() if ok == 0))
e = json.load(open("/verif/expectations.json")); e["c06_int_works"] = works
json.dump(e, open("/verif/expectations.json", "w"), indent=1)
keys = {}
for seed in (21, 22, 23, 24):
    r = random.Random(seed)
    for o in search.run_jobs(census.cont_jobs(r, names, 30, modes=False), procs=16):
        if not o["ok"] and o["error"]["type"] != "ValidationError":
            keys.setdefault(c06.key(o), o)
for k, o in sorted(keys.items()):
    # confirm it replays deterministically
    again = [search.run_job(o["job"]) for _ in range(2)]
    print(json.dumps({"key": k, "deterministic": all((not a["ok"]) and c06.key(a) == k for a in again), "msg": o["error"]["msg"][:100], "job": o["job"]}))
