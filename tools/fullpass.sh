#!/bin/sh
# tools/fullpass.sh [quick|thorough] — every property's check on /repo as it is; one summary line each
tier=${1:-quick}
cd "$(dirname "$0")/.." || exit 2
out=${FULLPASS_OUT:-/var/tmp}
for i in 01 02 03 04 05 06 07 08 09 10 11 12 13 14 15 16 17 18 19 20; do
  s=$(date +%s)
  ./check C$i --tier $tier > $out/fullpass_C$i.$tier.log 2>&1; rc=$?
  e=$(date +%s)
  echo "C$i rc=$rc $((e-s))s known=$(grep -c '^KNOWN-FINDING' $out/fullpass_C$i.$tier.log) viol=$(grep -c '^VIOLATION' $out/fullpass_C$i.$tier.log)"
done
