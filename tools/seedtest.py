#!/venv/bin/python
"""tools/seedtest.py <seed-dir> <name> <check ids...>
Confirms a seeded change (patch.diff + demo.py + meta.json in <seed-dir>): demo passes on /repo, patch applies,
demo fails with it, the listed checks are run against the patched /repo, the patch is undone.  Records the
outcome in /verif/seeded/<name>/ (patch.diff, demo.py, meta.json with what was run and which checks caught it)."""
import json, os, shutil, subprocess, sys, tempfile
sd, name, checks = sys.argv[1], sys.argv[2], sys.argv[3:]
REPO = os.environ.get("PV_REPO", "/repo")                                             # the tree to patch (a vp run passes its own snapshot of /repo)
VERIF = os.path.dirname(os.path.dirname(os.path.abspath(__file__)))                    # the checks of THIS copy of /verif
def sh(cmd, **kw): return subprocess.run(cmd, shell=True, capture_output=True, text=True, **kw)
assert sh(f"git -C {REPO} status --porcelain").stdout.strip() == "", f"{REPO} not clean"
ran = {}
r = sh(f"/venv/bin/python {sd}/demo.py {REPO}", timeout=1800); ran["demo_on_repo"] = r.returncode
assert r.returncode == 0, (f"demo fails on unpatched {REPO}", r.stdout[-500:], r.stderr[-500:])
r = sh(f"git -C {REPO} apply --check {sd}/patch.diff"); assert r.returncode == 0, ("patch does not apply", r.stderr)
sh(f"git -C {REPO} apply {sd}/patch.diff")
evbak = tempfile.mkdtemp(prefix="pv-ev-", dir="/var/tmp")
sh(f"cp -a {VERIF}/evidence/. {evbak}/")
try:
    r = sh(f"/venv/bin/python {sd}/demo.py {REPO}", timeout=1800); ran["demo_on_patched"] = r.returncode
    demo_out = (r.stdout + r.stderr)[-600:]
    results = {}
    for c in checks:
        q = sh(f"cd {VERIF} && ./check {c} --tier quick", timeout=3000)
        lines = [l for l in q.stdout.splitlines() if l.startswith(("VIOLATION", "KNOWN-FINDING"))]
        lines.sort(key=lambda l: not l.startswith("VIOLATION")); results[c] = {"exit": q.returncode, "lines": lines[:6]}
        print(c, "exit", q.returncode, *lines[:3], sep="\n   ")
finally:
    sh(f"git -C {REPO} checkout -- . && git -C {REPO} clean -fdq pyvolutionary")
    sh(f"rm -rf {VERIF}/evidence && mkdir -p {VERIF}/evidence && cp -a {evbak}/. {VERIF}/evidence/ && rm -rf {evbak}")      # evidence must come from the unchanged tree
assert sh(f"git -C {REPO} status --porcelain").stdout.strip() == ""
out = f"{VERIF}/seeded/{name}"; os.makedirs(out, exist_ok=True)
shutil.copy(f"{sd}/patch.diff", out); shutil.copy(f"{sd}/demo.py", out)
meta = json.load(open(f"{sd}/meta.json")) if os.path.exists(f"{sd}/meta.json") else {}
meta["confirmed"] = {"demo_on_repo_exit": ran["demo_on_repo"], "demo_on_patched_exit": ran["demo_on_patched"], "demo_output_tail": demo_out,
                     "checks_run_on_patched_tree": results, "caught_by": [c for c, v in results.items() if v["exit"] != 0]}
json.dump(meta, open(f"{out}/meta.json", "w"), indent=1)
print("demo on patched exit:", ran["demo_on_patched"], "caught by:", meta["confirmed"]["caught_by"])
