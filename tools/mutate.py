#!/venv/bin/python
"""tools/mutate.py — mutation analysis of the verification machinery (not a check; never registered in MANIFEST).

  mutate.py list <repo> [--seed S] [--n N]        enumerate first-order mutants of the framework modules, print a seeded sample as JSON lines
  mutate.py apply <repo> '<json mutant>'          rewrite the module of <repo> with the mutant applied (whole module through ast.unparse)
  mutate.py shard <repo> <k> <of> [--seed S] [--n N] [--out FILE]
        for every mutant of shard k: apply it to <repo> (a scratch checkout: $VP_RUN_REPO), run the repository's own test suite; if the suite
        still passes, run every property's quick check against it (PV_REPO=<repo>) and record which checks raise an alarm; restore the module.

Operators: comparison boundary / negation, +1/-1 on integer constants, and<->or, dropped `not`, dropped statement (assignment to self.<field>, .append/.extend
call), swapped first two positional arguments, True<->False, slice bound +1, min<->max, `reverse=` dropped."""
from __future__ import annotations
import ast
import copy
import json
import os
import random
import subprocess
import sys
import time
from pathlib import Path

FILES = ["abstract.py", "helpers.py", "models.py", "utils.py", "hypertuner.py", "multitask.py", "enums.py"]
SKIP_FUNCS = {"runge_kutta", "__generate_dict_result__", "get_levy_flight_step", "distance", "random_selection", "roulette_wheel_indexes", "get_partner_index", "amend_solution", "random_solution",
              "increase_solution", "uniform_coordinates", "is_valid_solution", "export_to_csv", "export_to_json", "export_to_dataframe", "__debug_results__",
              "__set_keyword_arguments__", "export_results", "__repr__", "__str__"}


class Site:
    def __init__(self, file, func, lineno, kind, detail): self.file, self.func, self.lineno, self.kind, self.detail = file, func, lineno, kind, detail
    def key(self): return {"file": self.file, "func": self.func, "line": self.lineno, "kind": self.kind, "detail": self.detail}


def functions(tree):
    out = []
    for n in ast.walk(tree):
        if isinstance(n, ast.ClassDef):
            for m in n.body:
                if isinstance(m, ast.FunctionDef): out.append((f"{n.name}.{m.name}", m))
    for n in tree.body:
        if isinstance(n, ast.FunctionDef): out.append((n.name, n))
    return out


CMP = {ast.Lt: [ast.LtE, ast.GtE], ast.LtE: [ast.Lt, ast.Gt], ast.Gt: [ast.GtE, ast.LtE], ast.GtE: [ast.Gt, ast.Lt], ast.Eq: [ast.NotEq], ast.NotEq: [ast.Eq],
       ast.Is: [ast.IsNot], ast.IsNot: [ast.Is]}


def candidates(fn):
    """(node index in ast.walk order, kind, detail) for every applicable operator"""
    out = []
    for i, n in enumerate(ast.walk(fn)):
        if isinstance(n, ast.Compare) and len(n.ops) == 1 and type(n.ops[0]) in CMP:
            for j, _ in enumerate(CMP[type(n.ops[0])]): out.append((i, "cmp", j))
        if isinstance(n, ast.Constant) and isinstance(n.value, bool): out.append((i, "bool", 0))
        elif isinstance(n, ast.Constant) and isinstance(n.value, int) and 0 <= n.value <= 3:
            out.append((i, "int+1", 0))
            if n.value > 0: out.append((i, "int-1", 0))
        if isinstance(n, ast.BoolOp): out.append((i, "boolop", 0))
        if isinstance(n, ast.UnaryOp) and isinstance(n.op, ast.Not): out.append((i, "not", 0))
        if isinstance(n, ast.Call) and len(n.args) >= 2 and not any(isinstance(a, ast.Starred) for a in n.args[:2]): out.append((i, "swapargs", 0))
        if isinstance(n, ast.Call) and isinstance(n.func, ast.Name) and n.func.id in ("min", "max"): out.append((i, "minmax", 0))
        if isinstance(n, ast.Call) and any(k.arg == "reverse" for k in n.keywords): out.append((i, "noreverse", 0))
        if isinstance(n, ast.Slice) and (n.lower is not None or n.upper is not None): out.append((i, "slice", 0))
        if isinstance(n, ast.BinOp) and isinstance(n.op, (ast.Add, ast.Sub)): out.append((i, "addsub", 0))
        if isinstance(n, ast.Assign) and any(isinstance(t, ast.Attribute) and isinstance(t.value, ast.Name) and t.value.id == "self" for t in n.targets): out.append((i, "dropstmt", 0))
        if isinstance(n, ast.Expr) and isinstance(n.value, ast.Call) and isinstance(n.value.func, ast.Attribute) and n.value.func.attr in ("append", "extend", "sort"):
            out.append((i, "dropstmt", 0))
    return out


def opt_candidates(fn):
    """operators aimed at what the properties say about an optimizer (not at its numeric kernel): dropped greedy selection, dropped copies, shifted slices and
    ranges, dropped (re)initialisation of a field, dropped append / extend, a population helper's size argument +-1"""
    out = []
    for i, n in enumerate(ast.walk(fn)):
        if isinstance(n, ast.Call) and isinstance(n.func, ast.Attribute):
            a = n.func.attr
            if a == "_greedy_select_agent" and len(n.args) == 2: out.append((i, "dropgreedy", 0)); out.append((i, "dropgreedy", 1))
            if a in ("copy", "model_copy") and not n.args and not n.keywords: out.append((i, "dropcopy", 0))
            if a in ("_extend_and_trim_population", "_replace_and_trim_population", "_greedy_select_population", "_generate_agents", "_generate_group_population") and n.args:
                out.append((i, "dropcall", 0))
        if isinstance(n, ast.Call) and isinstance(n.func, ast.Name):
            if n.func.id == "deepcopy" and len(n.args) == 1: out.append((i, "dropcopy", 0))
            if n.func.id == "range" and n.args: out.append((i, "rangeshrink", 0)); out.append((i, "rangeshrink", 1))
            if n.func.id in ("sort_by_cost", "sort_and_trim", "best_agents", "worst_agents") and len(n.args) >= 2: out.append((i, "sizearg", 0))
        if isinstance(n, ast.Slice) and (n.lower is not None or n.upper is not None): out.append((i, "slice", 0))
        if isinstance(n, ast.Assign) and any(isinstance(t, ast.Attribute) and isinstance(t.value, ast.Name) and t.value.id == "self" for t in n.targets): out.append((i, "dropstmt", 0))
        if isinstance(n, ast.Expr) and isinstance(n.value, ast.Call) and isinstance(n.value.func, ast.Attribute) and n.value.func.attr in ("append", "extend"):
            out.append((i, "dropstmt", 0))
        if isinstance(n, ast.AugAssign) and isinstance(n.target, ast.Name) and isinstance(n.op, ast.Add) and isinstance(n.value, (ast.List, ast.ListComp, ast.Name)): out.append((i, "dropstmt", 0))
    return out


def mutate_fn(fn, idx, kind, detail):
    nodes = list(ast.walk(fn))
    n = nodes[idx]
    if kind == "cmp": n.ops = [CMP[type(n.ops[0])][detail]()]
    elif kind == "bool": n.value = not n.value
    elif kind == "int+1": n.value = n.value + 1
    elif kind == "int-1": n.value = n.value - 1
    elif kind == "boolop": n.op = ast.Or() if isinstance(n.op, ast.And) else ast.And()
    elif kind == "not":
        for p in nodes:
            for f, v in ast.iter_fields(p):
                if v is n: setattr(p, f, n.operand)
                elif isinstance(v, list) and n in v: v[v.index(n)] = n.operand
    elif kind == "swapargs": n.args[0], n.args[1] = n.args[1], n.args[0]
    elif kind == "minmax": n.func.id = "max" if n.func.id == "min" else "min"
    elif kind == "noreverse": n.keywords = [k for k in n.keywords if k.arg != "reverse"]
    elif kind == "slice":
        tgt = "upper" if n.upper is not None else "lower"
        setattr(n, tgt, ast.BinOp(left=getattr(n, tgt), op=ast.Add(), right=ast.Constant(value=1)))
    elif kind == "addsub": n.op = ast.Sub() if isinstance(n.op, ast.Add) else ast.Add()
    elif kind in ("dropgreedy", "dropcopy", "dropcall"):
        repl = n.args[detail] if kind == "dropgreedy" else (n.args[0] if (kind == "dropcall" or isinstance(n.func, ast.Name)) else n.func.value)
        for p in nodes:
            for f, v in ast.iter_fields(p):
                if v is n: setattr(p, f, repl)
                elif isinstance(v, list) and n in v: v[v.index(n)] = repl
    elif kind == "rangeshrink":
        if detail == 0 or len(n.args) == 1:      # one element fewer at the end
            k = 0 if len(n.args) == 1 else 1
            n.args[k] = ast.BinOp(left=n.args[k], op=ast.Sub(), right=ast.Constant(value=1))
        else:                                    # one element fewer at the start
            n.args[0] = ast.BinOp(left=n.args[0], op=ast.Add(), right=ast.Constant(value=1))
    elif kind == "sizearg":
        n.args[1] = ast.BinOp(left=n.args[1], op=ast.Add(), right=ast.Constant(value=1))
    elif kind == "dropstmt":
        for p in nodes:
            for f, v in ast.iter_fields(p):
                if isinstance(v, list) and n in v:
                    v[v.index(n)] = ast.Pass()
    ast.fix_missing_locations(fn)


def enumerate_sites(repo: Path, scope="framework"):
    sites = []
    if scope == "optimizers":
        files = sorted(str(p.relative_to(repo / "pyvolutionary")) for p in (repo / "pyvolutionary").glob("*/*.py") if p.name not in ("__init__.py", "params.py", "models.py"))
    else:
        files = FILES
    for f in files:
        tree = ast.parse((repo / "pyvolutionary" / f).read_text())
        for name, fn in functions(tree):
            if name.split(".")[-1] in SKIP_FUNCS: continue
            if scope == "optimizers" and "." not in name: continue
            for idx, kind, detail in (opt_candidates(fn) if scope == "optimizers" else candidates(fn)):
                node = list(ast.walk(fn))[idx]
                sites.append({"file": f, "func": name, "idx": idx, "kind": kind, "detail": detail, "line": getattr(node, "lineno", fn.lineno),
                              "was": ast.unparse(node)[:80] if not isinstance(node, ast.Slice) else ast.unparse(node)})
    return sites


def apply(repo: Path, m: dict) -> str:
    """returns the original text of the module (to restore it)"""
    p = repo / "pyvolutionary" / m["file"]
    orig = p.read_text()
    tree = ast.parse(orig)
    for name, fn in functions(tree):
        if name == m["func"]:
            mutate_fn(fn, m["idx"], m["kind"], m["detail"])
            break
    else:
        raise SystemExit(f"function {m['func']} not found")
    p.write_text(ast.unparse(tree) + "\n")
    return orig


def sample(repo: Path, seed: int, n: int, scope="framework"):
    sites = enumerate_sites(repo, scope)
    r = random.Random(seed)
    r.shuffle(sites)
    # stratify: a cap per file (framework) / per file and per operator kind (optimizers), then fill up
    per, perk = {}, {}
    out = []
    nfiles = len({s["file"] for s in sites})
    cap = n // max(nfiles, 1) + (3 if scope == "framework" else 1)
    kcap = n if scope == "framework" else n // 5 + 1
    for s in sites:
        if per.get(s["file"], 0) < cap and perk.get(s["kind"], 0) < kcap and len(out) < n:
            out.append(s); per[s["file"]] = per.get(s["file"], 0) + 1; perk[s["kind"]] = perk.get(s["kind"], 0) + 1
    return out, len(sites)


def run_group(cmd, env, timeout):
    """run a check in its own process group; on timeout kill the whole group (the check's pool workers included) and return None"""
    import signal
    p = subprocess.Popen(cmd, stdout=subprocess.PIPE, stderr=subprocess.PIPE, text=True, env=env, start_new_session=True)
    try:
        out, err = p.communicate(timeout=timeout)
        return subprocess.CompletedProcess(cmd, p.returncode, out, err)
    except subprocess.TimeoutExpired:
        try: os.killpg(p.pid, signal.SIGKILL)
        except ProcessLookupError: pass
        p.communicate()
        return None


def main():
    a = sys.argv[1:]
    opt = lambda name, default: (a[a.index(name) + 1] if name in a else default)
    cmd, repo = a[0], Path(a[1])
    seed, n, scope = int(opt("--seed", 1)), int(opt("--n", 64)), opt("--scope", "framework")
    if cmd == "list":
        ms, total = sample(repo, seed, n, scope)
        print(f"# {total} mutation sites; sample of {len(ms)} (seed {seed})", file=sys.stderr)
        for m in ms: print(json.dumps(m))
    elif cmd == "apply":
        apply(repo, json.loads(a[2]))
    elif cmd == "shard":
        k, of = int(a[2]), int(a[3])
        out = Path(opt("--out", f"mutants_{k}.jsonl"))
        verif = Path(__file__).resolve().parent.parent
        ms, total = sample(repo, seed, n, scope)
        mine = [m for i, m in enumerate(ms) if i % of == k]
        env = dict(os.environ, PV_REPO=str(repo))
        for m in mine:
            t0 = time.time()
            orig = apply(repo, m)
            rec = dict(m)
            try:
                now = (repo / "pyvolutionary" / m["file"]).read_text()
                if ast.dump(ast.parse(now)) == ast.dump(ast.parse(orig)):
                    rec["status"] = "no-op"; continue
                t = subprocess.run(f"cd {repo} && PYTHONPATH={repo} timeout 1500 /venv/bin/python -m pytest -q -p no:cacheprovider -x -n 4 --timeout=900 2>&1 | tail -3", shell=True, capture_output=True, text=True)
                rec["suite"] = "pass" if " passed" in t.stdout and "failed" not in t.stdout and "error" not in t.stdout.lower() else "fail"
                rec["suite_tail"] = t.stdout.strip()[-160:]
                if rec["suite"] == "pass":
                    caught, broken_only = [], []
                    for i in range(1, 21):
                        pid = f"C{i:02d}"
                        q = run_group([str(verif / "check"), pid, "--tier", "quick"], env, 2400)
                        if q is None:
                            rec.setdefault("check_timeouts", []).append(pid); caught.append(pid); continue      # a check that hangs on the mutant: the mutant is at least noticed
                        if q.returncode != 0:
                            lines = [l for l in q.stdout.splitlines() if l.startswith("VIOLATION")]
                            (broken_only if lines and all("no-failing-input-found" in l for l in lines) else caught).append(pid)
                    rec["alarm_with_input"], rec["alarm_broken_only"] = caught, broken_only
                    rec["status"] = "caught" if (caught or broken_only) else "SURVIVED"
                else:
                    rec["status"] = "killed-by-suite"
            finally:
                (repo / "pyvolutionary" / m["file"]).write_text(orig)
                rec["seconds"] = round(time.time() - t0)
                with open(out, "a") as fh: fh.write(json.dumps(rec) + "\n")
                print(rec.get("status"), m["file"], m["func"], m["kind"], m["was"], flush=True)


if __name__ == "__main__":
    main()
