#!/venv/bin/python
"""tools/c18_baseline.py — records the accept/reject table of every configuration class on the probe set of pv/validators.py (expectations.json: c18_validators).
Run by hand on the unchanged tree only; never at check time."""
import json, sys
sys.path[:0] = ["/verif", "/repo"]
from pv import validators
t = validators.table()
e = json.load(open("/verif/expectations.json")); e["c18_validators"] = t
json.dump(e, open("/verif/expectations.json", "w"), indent=1)
print(len(t), "config classes,", sum(len(r) for r in t.values()), "numeric fields")
print({k: v for k, v in list(t.items())[:2]})
